(* Proofs about Model/Chan.v: the channel protocols (C20) and the frame and
   happens-before properties (C16). *)
From Coq Require Import List ZArith Bool Arith Lia Relations.
From GS Require Import Model.Chan.
Import ListNotations.

(* ------------------------------------------------------------------ *)
(* 0. Basic facts                                                      *)

Lemma value_eqb_eq : forall a b, value_eqb a b = true <-> a = b.
Proof.
  induction a as [|x a IH]; destruct b as [|y b]; simpl; split; intro H;
    try reflexivity; try discriminate.
  - apply andb_true_iff in H. destruct H as [H1 H2].
    apply Z.eqb_eq in H1. apply IH in H2. subst. reflexivity.
  - injection H as -> ->. rewrite Z.eqb_refl. simpl. apply IH. reflexivity.
Qed.

Lemma lookup_set_same : forall A (d : A) k a l, lookup d k (set k a l) = a.
Proof.
  intros A d k a l. induction l as [|[k' a'] l IH]; simpl.
  - rewrite Nat.eqb_refl. reflexivity.
  - destruct (k' =? k) eqn:E; simpl.
    + rewrite Nat.eqb_refl. reflexivity.
    + rewrite E. exact IH.
Qed.

Lemma lookup_set_other : forall A (d : A) k k' a l, k <> k' ->
  lookup d k' (set k a l) = lookup d k' l.
Proof.
  intros A d k k' a l Hne. induction l as [|[k2 a2] l IH]; simpl.
  - destruct (k =? k') eqn:E; [apply Nat.eqb_eq in E; contradiction|reflexivity].
  - destruct (k2 =? k) eqn:E; simpl.
    + apply Nat.eqb_eq in E. subst k2.
      destruct (k =? k') eqn:E2; [apply Nat.eqb_eq in E2; contradiction|reflexivity].
    + destruct (k2 =? k'); [reflexivity|exact IH].
Qed.

Lemma run_app : forall l1 l2 s, run (l1 ++ l2) s = run l2 (run l1 s).
Proof.
  induction l1 as [|t l1 IH]; intros l2 s; simpl; [reflexivity|].
  destruct (step s t); apply IH.
Qed.

Lemma run_quiescent : forall sched s, quiescent s -> run sched s = s.
Proof.
  induction sched as [|t r IH]; intros s Hq; simpl; [reflexivity|].
  rewrite (Hq t). apply IH. exact Hq.
Qed.

Lemma step_panic_none : forall s t, panic s = true -> step s t = None.
Proof. intros s t H. unfold step. rewrite H. reflexivity. Qed.

Lemma step_out_of_range : forall s t, length (threads s) <= t -> step s t = None.
Proof.
  intros s t H. unfold step. destruct (panic s); [reflexivity|].
  apply nth_error_None in H. rewrite H. reflexivity.
Qed.

Lemma nb_close_app : forall ch a b, nb_close ch (a ++ b) = nb_close ch a + nb_close ch b.
Proof. intros. unfold nb_close. rewrite filter_app, app_length. reflexivity. Qed.

Lemma round_robin_rounds : forall n k, rounds n k (round_robin n k).
Proof.
  intros n k. induction k as [|k IH]; simpl.
  - constructor.
  - constructor; [|exact IH]. intros t Ht. apply in_seq. lia.
Qed.

Lemma rounds_app_tail : forall n k l l', rounds n k l -> rounds n k (l ++ l').
Proof.
  intros n k l l' H. induction H as [l|k seg l Hseg H IH].
  - constructor.
  - rewrite <- app_assoc. constructor; assumption.
Qed.

(* ------------------------------------------------------------------ *)
(* 1. Termination of fair schedules from an invariant and a measure    *)

Section Termination.
Variable Inv : sys -> Prop.
Variable mu : sys -> nat.
Variable n : nat.
Hypothesis Hpres : forall s t s', Inv s -> step s t = Some s' -> Inv s'.
Hypothesis Hdec : forall s t s', Inv s -> step s t = Some s' -> mu s' < mu s.
Hypothesis Hwidth : forall s, Inv s -> length (threads s) <= n.

Lemma inv_run : forall sched s, Inv s -> Inv (run sched s).
Proof.
  induction sched as [|t r IH]; intros s Hs; simpl; [exact Hs|].
  destruct (step s t) eqn:E; [apply IH; eapply Hpres; eauto|apply IH; exact Hs].
Qed.

Lemma mu_run : forall sched s, Inv s -> mu (run sched s) <= mu s.
Proof.
  induction sched as [|t r IH]; intros s Hs; simpl; [lia|].
  destruct (step s t) eqn:E.
  - pose proof (Hdec _ _ _ Hs E). pose proof (IH s0 (Hpres _ _ _ Hs E)). lia.
  - apply IH. exact Hs.
Qed.

Lemma segment_progress : forall seg s, Inv s ->
  (run seg s = s /\ forall t, In t seg -> step s t = None) \/ mu (run seg s) < mu s.
Proof.
  induction seg as [|t seg IH]; intros s Hs; simpl.
  - left. split; [reflexivity|intros t []].
  - destruct (step s t) eqn:E.
    + right. pose proof (Hdec _ _ _ Hs E).
      pose proof (mu_run seg s0 (Hpres _ _ _ Hs E)). lia.
    + destruct (IH s Hs) as [[Hr Hn]|Hlt]; [left|right; exact Hlt].
      split; [exact Hr|]. intros t' [<-|Hin]; [exact E|apply Hn; exact Hin].
Qed.

Lemma quiescent_of_width : forall s, Inv s ->
  (forall t, t < n -> step s t = None) -> quiescent s.
Proof.
  intros s Hs H t. destruct (Nat.lt_ge_cases t n) as [Hlt|Hge]; [apply H; exact Hlt|].
  apply step_out_of_range. pose proof (Hwidth s Hs). lia.
Qed.

Lemma fair_terminates_aux : forall k sched s,
  Inv s -> mu s <= k -> rounds n k sched -> quiescent (run sched s).
Proof.
  induction k as [|k IH]; intros sched s Hs Hmu Hr.
  - assert (Hq : quiescent s).
    { intro t. destruct (step s t) eqn:E; [|reflexivity].
      pose proof (Hdec _ _ _ Hs E). lia. }
    rewrite run_quiescent by exact Hq. exact Hq.
  - inversion Hr as [|k' seg l Hseg Hr']; subst.
    rewrite run_app.
    destruct (segment_progress seg s Hs) as [[Heq Hnone]|Hlt].
    + assert (Hq : quiescent s).
      { apply quiescent_of_width; [exact Hs|]. intros t Ht. apply Hnone. apply Hseg. exact Ht. }
      rewrite Heq. rewrite run_quiescent by exact Hq. exact Hq.
    + apply IH; [apply inv_run; exact Hs|lia|exact Hr'].
Qed.

Lemma fair_terminates : forall sched s,
  Inv s -> rounds n (mu s) sched -> quiescent (run sched s).
Proof. intros sched s Hs Hr. eapply fair_terminates_aux; eauto. Qed.

Lemma can_finish : forall s, Inv s -> exists sched, quiescent (run sched s).
Proof.
  intros s Hs. exists (round_robin n (mu s)).
  apply fair_terminates; [exact Hs|apply round_robin_rounds].
Qed.

(* the number of effective steps of any schedule is bounded by the measure *)
Fixpoint nb_steps (sched : list nat) (s : sys) : nat :=
  match sched with
  | [] => 0
  | t :: r => match step s t with Some s' => S (nb_steps r s') | None => nb_steps r s end
  end.

Lemma nb_steps_bound : forall sched s, Inv s -> nb_steps sched s <= mu s.
Proof.
  induction sched as [|t r IH]; intros s Hs; simpl; [lia|].
  destruct (step s t) eqn:E.
  - pose proof (Hdec _ _ _ Hs E). pose proof (IH s0 (Hpres _ _ _ Hs E)). lia.
  - apply IH. exact Hs.
Qed.

End Termination.

(* ------------------------------------------------------------------ *)
(* 2. One producer, one channel of any capacity, one consumer          *)

Inductive opt_inv (c : nat) (results : list value) : sys -> Prop :=
| oi_run : forall R Q rest lg ns nr tr,
    results = R ++ Q ++ rest -> lg = map OVal R ->
    ns = length R + length Q -> nr = length R -> length Q <= c ->
    nb_close 0 tr = 0 ->
    opt_inv c results
      (Sys [Thread (map (Send 0) rest ++ [Close 0]) []; Thread [collect 0] lg]
           [(0, Chan c Q false ns nr)] [] tr false)
| oi_closed : forall R Q lg ns nr tr,
    results = R ++ Q -> lg = map OVal R ->
    ns = length R + length Q -> nr = length R ->
    nb_close 0 tr = 1 ->
    opt_inv c results
      (Sys [Thread [] []; Thread [collect 0] lg]
           [(0, Chan c Q true ns nr)] [] tr false)
| oi_done : forall lg ns nr tr,
    lg = map OVal results ++ [OClosed] -> ns = length results -> nr = length results ->
    nb_close 0 tr = 1 ->
    opt_inv c results
      (Sys [Thread [] []; Thread [] lg] [(0, Chan c [] true ns nr)] [] tr false).

Lemma opt_inv_init : forall c results, opt_inv c results (optimal_sys c results).
Proof.
  intros c results. unfold optimal_sys, start, producer_optimal, producer, consumer, mkchan. simpl.
  apply oi_run with (R := []) (Q := []) (rest := results); simpl; auto; lia.
Qed.

Ltac close_count :=
  rewrite ?nb_close_app; unfold nb_close in *; simpl; lia.

Definition mu_opt (s : sys) : nat :=
  2 * length (code (getthread s 0)) + length (code (getthread s 1)) + length (queue (getc s 0)).

Ltac mu_tac := unfold mu_opt; cbn; rewrite ?app_length, ?map_length; simpl; lia.

Lemma opt_inv_step_mu : forall c results s t s',
  opt_inv c results s -> step s t = Some s' -> opt_inv c results s' /\ mu_opt s' < mu_opt s.
Proof.
  intros c results s t s' Hinv Hstep.
  destruct Hinv as [R Q rest lg ns nr tr HR Hlg Hns Hnr HQ Hcl
                   |R Q lg ns nr tr HR Hlg Hns Hnr Hcl
                   |lg ns nr tr Hlg Hns Hnr Hcl].
  - (* producer still has work *)
    destruct t as [|[|t]].
    + (* producer moves *)
      destruct rest as [|v rest].
      * (* close *)
        cbn in Hstep. injection Hstep as <-. split; [|mu_tac].
        apply oi_closed with (R := R) (Q := Q); auto.
        -- rewrite HR, app_nil_r. reflexivity.
        -- close_count.
      * cbn in Hstep. destruct c as [|c].
        -- (* rendezvous *)
           cbn in Hstep. injection Hstep as <-. split; [|mu_tac].
           destruct Q as [|q Q]; [|simpl in HQ; lia].
           apply oi_run with (R := R ++ [v]) (Q := []) (rest := rest).
           ++ rewrite HR. simpl. rewrite <- app_assoc. reflexivity.
           ++ rewrite map_app, Hlg. reflexivity.
           ++ rewrite app_length. simpl. simpl in Hns. lia.
           ++ rewrite app_length. simpl. lia.
           ++ simpl. lia.
           ++ close_count.
        -- cbn in Hstep.
           destruct (length Q <=? c) eqn:E; [|discriminate].
           apply Nat.leb_le in E.
           injection Hstep as <-. split; [|mu_tac].
           apply oi_run with (R := R) (Q := Q ++ [v]) (rest := rest); auto.
           ++ rewrite HR. rewrite <- app_assoc. reflexivity.
           ++ rewrite app_length. simpl. lia.
           ++ rewrite app_length. simpl. lia.
           ++ close_count.
    + (* consumer moves *)
      cbn in Hstep. destruct Q as [|q Q].
      * destruct c as [|c]; [|discriminate].
        destruct rest as [|v rest]; cbn in Hstep; [discriminate|].
        injection Hstep as <-. split; [|mu_tac].
        apply oi_run with (R := R ++ [v]) (Q := []) (rest := rest).
        -- rewrite HR. simpl. rewrite <- app_assoc. reflexivity.
        -- rewrite map_app, Hlg. reflexivity.
        -- rewrite app_length. simpl. simpl in Hns. lia.
        -- rewrite app_length. simpl. lia.
        -- simpl. lia.
        -- close_count.
      * injection Hstep as <-. split; [|mu_tac].
        apply oi_run with (R := R ++ [q]) (Q := Q) (rest := rest).
        -- rewrite HR. rewrite <- app_assoc. reflexivity.
        -- rewrite map_app, Hlg. reflexivity.
        -- rewrite app_length. simpl. simpl in Hns. lia.
        -- rewrite app_length. simpl. lia.
        -- simpl in HQ. lia.
        -- close_count.
    + cbn in Hstep. destruct t; discriminate.
  - destruct t as [|[|t]].
    + cbn in Hstep. discriminate.
    + cbn in Hstep. destruct Q as [|q Q].
      * injection Hstep as <-. split; [|mu_tac].
        apply oi_done.
        -- rewrite HR, app_nil_r, Hlg. reflexivity.
        -- rewrite HR, app_nil_r. simpl in Hns. lia.
        -- rewrite HR, app_nil_r. lia.
        -- close_count.
      * injection Hstep as <-. split; [|mu_tac].
        apply oi_closed with (R := R ++ [q]) (Q := Q).
        -- rewrite HR. rewrite <- app_assoc. reflexivity.
        -- rewrite map_app, Hlg. reflexivity.
        -- rewrite app_length. simpl. simpl in Hns. lia.
        -- rewrite app_length. simpl. lia.
        -- close_count.
    + cbn in Hstep. destruct t; discriminate.
  - destruct t as [|[|t]]; cbn in Hstep; try discriminate. destruct t; discriminate.
Qed.

Lemma opt_inv_step : forall c results s t s',
  opt_inv c results s -> step s t = Some s' -> opt_inv c results s'.
Proof. intros. eapply opt_inv_step_mu; eauto. Qed.

Lemma opt_inv_dec : forall c results s t s',
  opt_inv c results s -> step s t = Some s' -> mu_opt s' < mu_opt s.
Proof. intros. eapply opt_inv_step_mu; eauto. Qed.

Lemma opt_inv_width : forall c results s, opt_inv c results s -> length (threads s) <= 2.
Proof. intros c results s H. destruct H; simpl; lia. Qed.

Lemma vals_of_map_OVal : forall R, vals_of (map OVal R) = R.
Proof. induction R as [|v R IH]; simpl; [reflexivity|rewrite IH; reflexivity]. Qed.

Lemma vals_of_app : forall a b, vals_of (a ++ b) = vals_of a ++ vals_of b.
Proof.
  induction a as [|o a IH]; intros b; simpl; [reflexivity|].
  destruct o; simpl; rewrite IH; reflexivity.
Qed.

(* the final state of the protocol on channel [ch] with consumer goroutine [t] *)
Definition stream_done (results : list value) (ch t : nat) (s : sys) : Prop :=
  all_finished s = true /\
  log (getthread s t) = map OVal results ++ [OClosed] /\
  received s t = results /\
  last (received s t) [] = returned results /\
  nb_close ch (trace s) = 1 /\
  closed (getc s ch) = true /\ queue (getc s ch) = [] /\
  panic s = false.

(* what holds in every reachable state *)
Definition stream_safe (results : list value) (ch tp t : nat) (s : sys) : Prop :=
  panic s = false /\
  (exists rest, results = received s t ++ rest) /\
  nb_close ch (trace s) <= 1 /\
  (closed (getc s ch) = true <-> nb_close ch (trace s) = 1) /\
  (closed (getc s ch) = true -> finished (getthread s tp) = true).

Lemma opt_inv_safe : forall c results s, opt_inv c results s -> stream_safe results 0 0 1 s.
Proof.
  intros c results s H.
  destruct H as [R Q rest lg ns nr tr HR Hlg Hns Hnr HQ Hcl
                |R Q lg ns nr tr HR Hlg Hns Hnr Hcl
                |lg ns nr tr Hlg Hns Hnr Hcl];
    unfold stream_safe, received, getthread, getc, nb_close in *; cbn.
  - subst lg. rewrite vals_of_map_OVal.
    split; [reflexivity|]. split; [exists (Q ++ rest); exact HR|]. split; [lia|].
    split; [split; intro H; [discriminate|rewrite Hcl in H; discriminate]|].
    intro H; discriminate.
  - subst lg. rewrite vals_of_map_OVal.
    split; [reflexivity|]. split; [exists Q; exact HR|]. split; [lia|].
    split; [split; intro H; [exact Hcl|reflexivity]|]. intro H; reflexivity.
  - subst lg. rewrite vals_of_app, vals_of_map_OVal. simpl. rewrite app_nil_r.
    split; [reflexivity|]. split; [exists []; rewrite app_nil_r; reflexivity|]. split; [lia|].
    split; [split; intro H; [exact Hcl|reflexivity]|]. intro H; reflexivity.
Qed.

Lemma opt_inv_live : forall c results s, opt_inv c results s ->
  (forall t, t < 2 -> step s t = None) -> stream_done results 0 1 s.
Proof.
  intros c results s H Hq.
  destruct H as [R Q rest lg ns nr tr HR Hlg Hns Hnr HQ Hcl
                |R Q lg ns nr tr HR Hlg Hns Hnr Hcl
                |lg ns nr tr Hlg Hns Hnr Hcl].
  - exfalso. pose proof (Hq 0 ltac:(lia)) as H0. pose proof (Hq 1 ltac:(lia)) as H1.
    destruct rest as [|v rest]; [cbn in H0; discriminate|].
    cbn in H0. destruct c as [|c]; [cbn in H0; discriminate|].
    cbn in H0. destruct (length Q <=? c) eqn:E; [discriminate|].
    apply Nat.leb_gt in E.
    destruct Q as [|q Q]; [simpl in E; lia|]. cbn in H1. discriminate.
  - exfalso. pose proof (Hq 1 ltac:(lia)) as H1. cbn in H1.
    destruct Q; discriminate.
  - unfold stream_done, received, getthread, getc, all_finished. cbn. subst lg.
    rewrite vals_of_app, vals_of_map_OVal. simpl. rewrite app_nil_r.
    repeat split; auto.
Qed.

Lemma optimal_protocol : forall c results sched,
  let s0 := optimal_sys c results in
  let s := run sched s0 in
  stream_safe results 0 0 1 s /\
  (quiescent s -> stream_done results 0 1 s) /\
  (exists sched', quiescent (run sched' s)) /\
  (forall sched', rounds 2 (mu_opt s) sched' -> quiescent (run sched' s)) /\
  nb_steps sched s0 <= 2 * length results + 3.
Proof.
  intros c results sched s0 s.
  assert (Hinv : opt_inv c results s).
  { apply (inv_run (opt_inv c results) (opt_inv_step c results)). apply opt_inv_init. }
  split; [eapply opt_inv_safe; eauto|].
  split. { intro Hq. eapply opt_inv_live; eauto. }
  split. { eapply (can_finish (opt_inv c results) mu_opt 2); eauto using opt_inv_step, opt_inv_dec, opt_inv_width. }
  split. { intros sched' Hr. eapply (fair_terminates (opt_inv c results) mu_opt 2); eauto using opt_inv_step, opt_inv_dec, opt_inv_width. }
  pose proof (nb_steps_bound (opt_inv c results) mu_opt (opt_inv_step c results) (opt_inv_dec c results) sched s0 (opt_inv_init c results)) as Hb.
  replace (mu_opt s0) with (2 * length results + 3) in Hb; [exact Hb|].
  unfold s0, mu_opt, optimal_sys, start, producer_optimal, producer, consumer, getthread, getc. cbn.
  rewrite app_length, map_length. simpl. lia.
Qed.

Lemma flat_map_map_concat : forall A B (f : A -> B) (l : list (list A)),
  flat_map (map f) l = map f (concat l).
Proof.
  intros A B f l. induction l as [|x l IH]; simpl; [reflexivity|].
  rewrite map_app, IH. reflexivity.
Qed.

Lemma enumerate_sys_optimal : forall c batches,
  enumerate_sys c batches = optimal_sys c (concat batches).
Proof.
  intros c batches. unfold enumerate_sys, optimal_sys, producer_enumerate, producer_optimal, producer.
  rewrite flat_map_map_concat. reflexivity.
Qed.

Lemma enumerate_protocol : forall c batches sched,
  let s0 := enumerate_sys c batches in
  let s := run sched s0 in
  stream_safe (concat batches) 0 0 1 s /\
  (quiescent s -> stream_done (concat batches) 0 1 s /\
                  [Z.of_nat (length (received s 1))] = returned_count batches) /\
  (exists sched', quiescent (run sched' s)) /\
  (forall sched', rounds 2 (mu_opt s) sched' -> quiescent (run sched' s)) /\
  nb_steps sched s0 <= 2 * length (concat batches) + 3.
Proof.
  intros c batches sched s0 s. unfold s, s0. rewrite enumerate_sys_optimal.
  destruct (optimal_protocol c (concat batches) sched) as [H1 [H2 [H3 [H4 H5]]]].
  split; [exact H1|]. split; [|split; [exact H3|split; [exact H4|exact H5]]].
  intro Hq. split; [apply H2; exact Hq|].
  apply H2 in Hq. destruct Hq as [_ [_ [Hr _]]]. rewrite Hr. reflexivity.
Qed.

(* ------------------------------------------------------------------ *)
(* 3. The maxsat forwarder: producer -> unbuffered inner channel ->    *)
(*    forwarding goroutine -> outer channel of any capacity -> consumer *)

Definition frange (trim : value -> value) : instr :=
  Range 0 (fun v => [Send 1 (trim v)]) (fun _ => false).
Definition fsend (trim : value -> value) (h : value) : instr := Send 1 (trim h).

(* results = R ++ Q ++ H ++ rest: R delivered to the consumer, Q in the outer
   buffer, H (at most one) received by the forwarder and not yet sent. *)
Inductive fwd_inv (c : nat) (trim : value -> value) (results : list value) : sys -> Prop :=
| fi_run : forall R Q H rest qo lf lc n0 m0 ns nr tr,
    qo = map trim Q ->
    results = R ++ Q ++ H ++ rest -> length H <= 1 -> length Q <= c ->
    lf = map OVal (R ++ Q ++ H) -> lc = map OVal (map trim R) ->
    n0 = length R + length Q + length H -> m0 = n0 ->
    ns = length R + length Q -> nr = length R ->
    nb_close 0 tr = 0 -> nb_close 1 tr = 0 ->
    fwd_inv c trim results
      (Sys [Thread (map (Send 0) rest ++ [Close 0]) [];
            Thread (map (fsend trim) H ++ [frange trim; Close 1]) lf;
            Thread [collect 1] lc]
           [(0, Chan 0 [] false n0 m0); (1, Chan c qo false ns nr)] [] tr false)
| fi_inner_closed : forall R Q H qo lf lc n0 m0 ns nr tr,
    qo = map trim Q ->
    results = R ++ Q ++ H -> length H <= 1 -> length Q <= c ->
    lf = map OVal (R ++ Q ++ H) -> lc = map OVal (map trim R) ->
    n0 = length results -> m0 = n0 ->
    ns = length R + length Q -> nr = length R ->
    nb_close 0 tr = 1 -> nb_close 1 tr = 0 ->
    fwd_inv c trim results
      (Sys [Thread [] [];
            Thread (map (fsend trim) H ++ [frange trim; Close 1]) lf;
            Thread [collect 1] lc]
           [(0, Chan 0 [] true n0 m0); (1, Chan c qo false ns nr)] [] tr false)
| fi_fwd_closing : forall R Q qo lf lc n0 m0 ns nr tr,
    qo = map trim Q ->
    results = R ++ Q -> length Q <= c ->
    lf = map OVal results ++ [OClosed] -> lc = map OVal (map trim R) ->
    n0 = length results -> m0 = n0 ->
    ns = length R + length Q -> nr = length R ->
    nb_close 0 tr = 1 -> nb_close 1 tr = 0 ->
    fwd_inv c trim results
      (Sys [Thread [] []; Thread [Close 1] lf; Thread [collect 1] lc]
           [(0, Chan 0 [] true n0 m0); (1, Chan c qo false ns nr)] [] tr false)
| fi_outer_closed : forall R Q qo lf lc n0 m0 ns nr tr,
    qo = map trim Q ->
    results = R ++ Q ->
    lf = map OVal results ++ [OClosed] -> lc = map OVal (map trim R) ->
    n0 = length results -> m0 = n0 ->
    ns = length R + length Q -> nr = length R ->
    nb_close 0 tr = 1 -> nb_close 1 tr = 1 ->
    fwd_inv c trim results
      (Sys [Thread [] []; Thread [] lf; Thread [collect 1] lc]
           [(0, Chan 0 [] true n0 m0); (1, Chan c qo true ns nr)] [] tr false)
| fi_done : forall lf lc n0 m0 ns nr tr,
    lf = map OVal results ++ [OClosed] -> lc = map OVal (map trim results) ++ [OClosed] ->
    n0 = length results -> m0 = n0 ->
    ns = length results -> nr = length results ->
    nb_close 0 tr = 1 -> nb_close 1 tr = 1 ->
    fwd_inv c trim results
      (Sys [Thread [] []; Thread [] lf; Thread [] lc]
           [(0, Chan 0 [] true n0 m0); (1, Chan c [] true ns nr)] [] tr false).

Lemma fwd_inv_init : forall c trim results, fwd_inv c trim results (forwarder_sys c trim results).
Proof.
  intros c trim results. unfold forwarder_sys, start, producer, forwarder, consumer, mkchan. simpl.
  apply fi_run with (R := []) (Q := []) (H := []) (rest := results); simpl; auto; lia.
Qed.

Fixpoint wcode (l : list instr) : nat :=
  match l with
  | [] => 0
  | Send _ _ :: r => 2 + wcode r
  | _ :: r => 1 + wcode r
  end.

Definition mu_fwd (s : sys) : nat :=
  4 * length (code (getthread s 0)) + wcode (code (getthread s 1)) +
  length (code (getthread s 2)) + length (queue (getc s 1)).

Ltac mu_fwd_tac :=
  unfold mu_fwd, getthread, getc; cbn; rewrite ?app_length, ?map_length; simpl; lia.

Ltac norm_app := repeat (rewrite <- app_assoc; simpl).

(* side conditions of the invariant *)
Ltac side HR :=
  first
    [ close_count
    | solve [ rewrite HR; norm_app; reflexivity ]
    | solve [ subst; rewrite ?map_app; simpl; norm_app; rewrite ?app_nil_r; reflexivity ]
    | solve [ subst; rewrite ?app_length, ?map_length in *; simpl in *; lia ]
    | solve [ rewrite ?app_length in *; simpl in *; lia ] ].

Lemma fwd_inv_step_mu : forall c trim results s t s',
  fwd_inv c trim results s -> step s t = Some s' ->
  fwd_inv c trim results s' /\ mu_fwd s' < mu_fwd s.
Proof.
  intros c trim results s t s' Hinv Hstep.
  destruct Hinv as [R Q H rest qo lf lc n0 m0 ns nr tr Hqo HR HH HQ Hlf Hlc Hn0 Hm0 Hns Hnr Hc0 Hc1
                   |R Q H qo lf lc n0 m0 ns nr tr Hqo HR HH HQ Hlf Hlc Hn0 Hm0 Hns Hnr Hc0 Hc1
                   |R Q qo lf lc n0 m0 ns nr tr Hqo HR HQ Hlf Hlc Hn0 Hm0 Hns Hnr Hc0 Hc1
                   |R Q qo lf lc n0 m0 ns nr tr Hqo HR Hlf Hlc Hn0 Hm0 Hns Hnr Hc0 Hc1
                   |lf lc n0 m0 ns nr tr Hlf Hlc Hn0 Hm0 Hns Hnr Hc0 Hc1]; try subst qo.
  - (* producer running *)
    destruct H as [|h [|h2 H]]; [| |simpl in HH; lia].
    + (* forwarder holds nothing *)
      destruct t as [|[|[|t]]].
      * destruct rest as [|v rest]; cbn in Hstep; injection Hstep as <-; (split; [|mu_fwd_tac]).
        -- apply fi_inner_closed with (R := R) (Q := Q) (H := []); try side HR.
        -- apply fi_run with (R := R) (Q := Q) (H := [v]) (rest := rest); try side HR.
      * destruct rest as [|v rest]; cbn in Hstep; [discriminate|].
        injection Hstep as <-. split; [|mu_fwd_tac].
        apply fi_run with (R := R) (Q := Q) (H := [v]) (rest := rest); try side HR.
      * destruct Q as [|q Q].
        -- destruct c as [|c]; destruct rest as [|v rest]; cbn in Hstep; discriminate.
        -- cbn in Hstep. injection Hstep as <-. split; [|mu_fwd_tac].
           apply fi_run with (R := R ++ [q]) (Q := Q) (H := []) (rest := rest); try side HR.
      * cbn in Hstep. destruct t; discriminate.
    + (* forwarder holds h *)
      destruct t as [|[|[|t]]].
      * destruct rest as [|v rest]; cbn in Hstep; [|discriminate].
        injection Hstep as <-. split; [|mu_fwd_tac].
        apply fi_inner_closed with (R := R) (Q := Q) (H := [h]); try side HR.
      * destruct c as [|c].
        -- destruct Q as [|q Q]; [|simpl in HQ; lia].
           destruct rest as [|v rest]; cbn in Hstep; injection Hstep as <-; (split; [|mu_fwd_tac]).
           ++ apply fi_run with (R := R ++ [h]) (Q := []) (H := []) (rest := []); try side HR.
           ++ apply fi_run with (R := R ++ [h]) (Q := []) (H := []) (rest := v :: rest); try side HR.
        -- cbn in Hstep. rewrite map_length in Hstep.
           destruct (length Q <=? c) eqn:E; [|discriminate]. apply Nat.leb_le in E.
           injection Hstep as <-. split; [|mu_fwd_tac].
           apply fi_run with (R := R) (Q := Q ++ [h]) (H := []) (rest := rest); try side HR.
      * destruct Q as [|q Q].
        -- destruct c as [|c]; destruct rest as [|v rest]; cbn in Hstep; try discriminate;
             injection Hstep as <-; (split; [|mu_fwd_tac]).
           ++ apply fi_run with (R := R ++ [h]) (Q := []) (H := []) (rest := []); try side HR.
           ++ apply fi_run with (R := R ++ [h]) (Q := []) (H := []) (rest := v :: rest); try side HR.
        -- cbn in Hstep. injection Hstep as <-. split; [|mu_fwd_tac].
           apply fi_run with (R := R ++ [q]) (Q := Q) (H := [h]) (rest := rest); try side HR.
      * cbn in Hstep. destruct t; discriminate.
  - (* inner channel closed, forwarder still ranging *)
    destruct H as [|h [|h2 H]]; [| |simpl in HH; lia].
    + destruct t as [|[|[|t]]].
      * cbn in Hstep. discriminate.
      * cbn in Hstep. injection Hstep as <-. split; [|mu_fwd_tac].
        apply fi_fwd_closing with (R := R) (Q := Q); try side HR.
      * destruct Q as [|q Q].
        -- destruct c as [|c]; cbn in Hstep; discriminate.
        -- cbn in Hstep. injection Hstep as <-. split; [|mu_fwd_tac].
           apply fi_inner_closed with (R := R ++ [q]) (Q := Q) (H := []); try side HR.
      * cbn in Hstep. destruct t; discriminate.
    + destruct t as [|[|[|t]]].
      * cbn in Hstep. discriminate.
      * destruct c as [|c].
        -- destruct Q as [|q Q]; [|simpl in HQ; lia].
           cbn in Hstep. injection Hstep as <-. split; [|mu_fwd_tac].
           apply fi_inner_closed with (R := R ++ [h]) (Q := []) (H := []); try side HR.
        -- cbn in Hstep. rewrite map_length in Hstep.
           destruct (length Q <=? c) eqn:E; [|discriminate]. apply Nat.leb_le in E.
           injection Hstep as <-. split; [|mu_fwd_tac].
           apply fi_inner_closed with (R := R) (Q := Q ++ [h]) (H := []); try side HR.
      * destruct Q as [|q Q].
        -- destruct c as [|c]; cbn in Hstep; try discriminate.
           injection Hstep as <-. split; [|mu_fwd_tac].
           apply fi_inner_closed with (R := R ++ [h]) (Q := []) (H := []); try side HR.
        -- cbn in Hstep. injection Hstep as <-. split; [|mu_fwd_tac].
           apply fi_inner_closed with (R := R ++ [q]) (Q := Q) (H := [h]); try side HR.
      * cbn in Hstep. destruct t; discriminate.
  - (* forwarder about to close the outer channel *)
    destruct t as [|[|[|t]]].
    + cbn in Hstep. discriminate.
    + cbn in Hstep. injection Hstep as <-. split; [|mu_fwd_tac].
      apply fi_outer_closed with (R := R) (Q := Q); try side HR.
    + destruct Q as [|q Q].
      * destruct c as [|c]; cbn in Hstep; discriminate.
      * cbn in Hstep. injection Hstep as <-. split; [|mu_fwd_tac].
        apply fi_fwd_closing with (R := R ++ [q]) (Q := Q); try side HR.
    + cbn in Hstep. destruct t; discriminate.
  - (* outer channel closed, consumer draining *)
    destruct t as [|[|[|t]]].
    + cbn in Hstep. discriminate.
    + cbn in Hstep. discriminate.
    + destruct Q as [|q Q].
      * cbn in Hstep. injection Hstep as <-. split; [|mu_fwd_tac].
        apply fi_done; try side HR.
      * cbn in Hstep. injection Hstep as <-. split; [|mu_fwd_tac].
        apply fi_outer_closed with (R := R ++ [q]) (Q := Q); try side HR.
    + cbn in Hstep. destruct t; discriminate.
  - destruct t as [|[|[|t]]]; cbn in Hstep; try discriminate. destruct t; discriminate.
Qed.

Lemma fwd_inv_step : forall c trim results s t s',
  fwd_inv c trim results s -> step s t = Some s' -> fwd_inv c trim results s'.
Proof. intros. eapply fwd_inv_step_mu; eauto. Qed.

Lemma fwd_inv_dec : forall c trim results s t s',
  fwd_inv c trim results s -> step s t = Some s' -> mu_fwd s' < mu_fwd s.
Proof. intros. eapply fwd_inv_step_mu; eauto. Qed.

Lemma fwd_inv_width : forall c trim results s, fwd_inv c trim results s -> length (threads s) <= 3.
Proof. intros c trim results s H. destruct H; simpl; lia. Qed.

(* the inner channel: never sent on after its close, closed at most once, by
   the finished producer; what the forwarder received is a prefix of results *)
Definition inner_safe (results : list value) (s : sys) : Prop :=
  nb_close 0 (trace s) <= 1 /\
  (closed (getc s 0) = true <-> nb_close 0 (trace s) = 1) /\
  (closed (getc s 0) = true -> finished (getthread s 0) = true) /\
  queue (getc s 0) = [] /\
  (exists rest, results = received s 1 ++ rest).

Lemma fwd_inv_safe : forall c trim results s, fwd_inv c trim results s ->
  stream_safe (map trim results) 1 1 2 s /\ inner_safe results s.
Proof.
  intros c trim results s Hinv.
  destruct Hinv as [R Q H rest qo lf lc n0 m0 ns nr tr Hqo HR HH HQ Hlf Hlc Hn0 Hm0 Hns Hnr Hc0 Hc1
                   |R Q H qo lf lc n0 m0 ns nr tr Hqo HR HH HQ Hlf Hlc Hn0 Hm0 Hns Hnr Hc0 Hc1
                   |R Q qo lf lc n0 m0 ns nr tr Hqo HR HQ Hlf Hlc Hn0 Hm0 Hns Hnr Hc0 Hc1
                   |R Q qo lf lc n0 m0 ns nr tr Hqo HR Hlf Hlc Hn0 Hm0 Hns Hnr Hc0 Hc1
                   |lf lc n0 m0 ns nr tr Hlf Hlc Hn0 Hm0 Hns Hnr Hc0 Hc1];
    unfold stream_safe, inner_safe, received, getthread, getc, nb_close in *; cbn;
    subst lf lc; rewrite ?vals_of_app, ?vals_of_map_OVal; simpl; rewrite ?app_nil_r.
  - split; [split; [reflexivity|]|].
    + split; [exists (map trim (Q ++ H ++ rest)); rewrite <- map_app, <- HR; reflexivity|].
      split; [lia|]. split; [split; intro X; [discriminate|rewrite Hc1 in X; discriminate]|].
      intro X; discriminate.
    + split; [lia|]. split; [split; intro X; [discriminate|rewrite Hc0 in X; discriminate]|].
      split; [intro X; discriminate|]. split; [reflexivity|].
      exists rest. rewrite HR. norm_app. reflexivity.
  - split; [split; [reflexivity|]|].
    + split; [exists (map trim (Q ++ H)); rewrite <- map_app, <- HR; reflexivity|].
      split; [lia|]. split; [split; intro X; [discriminate|rewrite Hc1 in X; discriminate]|].
      intro X; discriminate.
    + split; [lia|]. split; [split; intro X; [exact Hc0|reflexivity]|].
      split; [intro X; reflexivity|]. split; [reflexivity|].
      exists []. rewrite HR. norm_app. rewrite app_nil_r. reflexivity.
  - split; [split; [reflexivity|]|].
    + split; [exists (map trim Q); rewrite <- map_app, <- HR; reflexivity|].
      split; [lia|]. split; [split; intro X; [discriminate|rewrite Hc1 in X; discriminate]|].
      intro X; discriminate.
    + split; [lia|]. split; [split; intro X; [exact Hc0|reflexivity]|].
      split; [intro X; reflexivity|]. split; [reflexivity|].
      exists []. rewrite app_nil_r. reflexivity.
  - split; [split; [reflexivity|]|].
    + split; [exists (map trim Q); rewrite <- map_app, <- HR; reflexivity|].
      split; [lia|]. split; [split; intro X; [exact Hc1|reflexivity]|].
      intro X; reflexivity.
    + split; [lia|]. split; [split; intro X; [exact Hc0|reflexivity]|].
      split; [intro X; reflexivity|]. split; [reflexivity|].
      exists []. rewrite app_nil_r. reflexivity.
  - split; [split; [reflexivity|]|].
    + split; [exists []; rewrite app_nil_r; reflexivity|].
      split; [lia|]. split; [split; intro X; [exact Hc1|reflexivity]|].
      intro X; reflexivity.
    + split; [lia|]. split; [split; intro X; [exact Hc0|reflexivity]|].
      split; [intro X; reflexivity|]. split; [reflexivity|].
      exists []. rewrite app_nil_r. reflexivity.
Qed.

Lemma fwd_inv_live : forall c trim results s, fwd_inv c trim results s ->
  (forall t, t < 3 -> step s t = None) ->
  stream_done (map trim results) 1 2 s /\ received s 1 = results /\
  nb_close 0 (trace s) = 1.
Proof.
  intros c trim results s Hinv Hq.
  pose proof (Hq 0 ltac:(lia)) as H0. pose proof (Hq 1 ltac:(lia)) as H1.
  pose proof (Hq 2 ltac:(lia)) as H2. clear Hq.
  destruct Hinv as [R Q H rest qo lf lc n0 m0 ns nr tr Hqo HR HH HQ Hlf Hlc Hn0 Hm0 Hns Hnr Hc0 Hc1
                   |R Q H qo lf lc n0 m0 ns nr tr Hqo HR HH HQ Hlf Hlc Hn0 Hm0 Hns Hnr Hc0 Hc1
                   |R Q qo lf lc n0 m0 ns nr tr Hqo HR HQ Hlf Hlc Hn0 Hm0 Hns Hnr Hc0 Hc1
                   |R Q qo lf lc n0 m0 ns nr tr Hqo HR Hlf Hlc Hn0 Hm0 Hns Hnr Hc0 Hc1
                   |lf lc n0 m0 ns nr tr Hlf Hlc Hn0 Hm0 Hns Hnr Hc0 Hc1]; try subst qo.
  - exfalso. destruct H as [|h [|h2 H]]; [| |simpl in HH; lia].
    + destruct rest as [|v rest]; cbn in H0; discriminate.
    + destruct c as [|c].
      * destruct rest as [|v rest]; cbn in H1; discriminate.
      * cbn in H1. rewrite map_length in H1.
        destruct (length Q <=? c) eqn:E; [discriminate|]. apply Nat.leb_gt in E.
        destruct Q as [|q Q]; [simpl in E; lia|]. cbn in H2. discriminate.
  - exfalso. destruct H as [|h [|h2 H]]; [| |simpl in HH; lia].
    + cbn in H1. discriminate.
    + destruct c as [|c].
      * cbn in H1; discriminate.
      * cbn in H1. rewrite map_length in H1.
        destruct (length Q <=? c) eqn:E; [discriminate|]. apply Nat.leb_gt in E.
        destruct Q as [|q Q]; [simpl in E; lia|]. cbn in H2. discriminate.
  - exfalso. cbn in H1. discriminate.
  - exfalso. destruct Q as [|q Q]; cbn in H2; discriminate.
  - unfold stream_done, received, getthread, getc, all_finished. cbn. subst lf lc.
    rewrite !vals_of_app, !vals_of_map_OVal. simpl. rewrite !app_nil_r.
    repeat split; auto.
Qed.

Lemma forwarder_protocol : forall c trim results sched,
  let s0 := forwarder_sys c trim results in
  let s := run sched s0 in
  (stream_safe (map trim results) 1 1 2 s /\ inner_safe results s) /\
  (quiescent s -> stream_done (map trim results) 1 2 s /\ received s 1 = results /\
                  nb_close 0 (trace s) = 1) /\
  (exists sched', quiescent (run sched' s)) /\
  (forall sched', rounds 3 (mu_fwd s) sched' -> quiescent (run sched' s)) /\
  nb_steps sched s0 <= 4 * length results + 7.
Proof.
  intros c trim results sched s0 s.
  assert (Hinv : fwd_inv c trim results s).
  { apply (inv_run (fwd_inv c trim results) (fwd_inv_step c trim results)). apply fwd_inv_init. }
  split; [eapply fwd_inv_safe; eauto|].
  split. { intro Hq. eapply fwd_inv_live; eauto. }
  split. { eapply (can_finish (fwd_inv c trim results) mu_fwd 3); eauto using fwd_inv_step, fwd_inv_dec, fwd_inv_width. }
  split. { intros sched' Hr. eapply (fair_terminates (fwd_inv c trim results) mu_fwd 3); eauto using fwd_inv_step, fwd_inv_dec, fwd_inv_width. }
  pose proof (nb_steps_bound (fwd_inv c trim results) mu_fwd (fwd_inv_step c trim results)
                (fwd_inv_dec c trim results) sched s0 (fwd_inv_init c trim results)) as Hb.
  replace (mu_fwd s0) with (4 * length results + 7) in Hb; [exact Hb|].
  unfold s0, mu_fwd, forwarder_sys, start, producer, forwarder, consumer, getthread, getc. cbn.
  rewrite app_length, map_length. simpl. lia.
Qed.

(* ------------------------------------------------------------------ *)
(* 4. The harness trace acceptor and the values of the stream          *)

Lemma oev_eqb_eq : forall a b, oev_eqb a b = true <-> a = b.
Proof.
  intros a b. destruct a as [v| |v]; destruct b as [w| |w]; simpl; split; intro H;
    try reflexivity; try discriminate.
  - apply value_eqb_eq in H. subst. reflexivity.
  - injection H as ->. apply value_eqb_eq. reflexivity.
  - apply value_eqb_eq in H. subst. reflexivity.
  - injection H as ->. apply value_eqb_eq. reflexivity.
Qed.

Lemma oevs_eqb_eq : forall a b, oevs_eqb a b = true <-> a = b.
Proof.
  induction a as [|x a IH]; destruct b as [|y b]; simpl; split; intro H;
    try reflexivity; try discriminate.
  - apply andb_true_iff in H. destruct H as [H1 H2].
    apply oev_eqb_eq in H1. apply IH in H2. subst. reflexivity.
  - injection H as -> ->. apply andb_true_iff. split; [apply oev_eqb_eq|apply IH]; reflexivity.
Qed.

Lemma view_of_done : forall ret results,
  flat_map oev_of_obs (map OVal results ++ [OClosed]) ++ [OReturned ret] =
  expected_trace ret results.
Proof.
  intros ret results. unfold expected_trace.
  rewrite flat_map_app. simpl. rewrite <- app_assoc. simpl. f_equal.
  induction results as [|v r IH]; simpl; [reflexivity|rewrite IH; reflexivity].
Qed.

Lemma accepts_trace_gen_sound : forall ret results c tr,
  accepts_trace_gen ret results c tr = true <->
  exists sched, quiescent (run sched (optimal_sys c results)) /\
                consumer_view ret (run sched (optimal_sys c results)) 1 = tr.
Proof.
  intros ret results c tr. unfold accepts_trace_gen. rewrite oevs_eqb_eq. split.
  - intros ->.
    destruct (optimal_protocol c results []) as [_ [_ [[sched Hq] _]]]. simpl in Hq.
    exists sched. split; [exact Hq|].
    destruct (optimal_protocol c results sched) as [_ [Hd _]].
    destruct (Hd Hq) as [_ [Hlog _]].
    unfold consumer_view. rewrite Hlog. apply view_of_done.
  - intros [sched [Hq Hv]].
    destruct (optimal_protocol c results sched) as [_ [Hd _]].
    destruct (Hd Hq) as [_ [Hlog _]].
    unfold consumer_view in Hv. rewrite Hlog, view_of_done in Hv. symmetry. exact Hv.
Qed.

Lemma accepts_trace_sound : forall results c tr,
  accepts_trace results c tr = true <->
  exists sched, quiescent (run sched (optimal_sys c results)) /\
                consumer_view (returned results) (run sched (optimal_sys c results)) 1 = tr.
Proof. intros. apply accepts_trace_gen_sound. Qed.

Lemma accepts_trace_spec : forall results c tr,
  accepts_trace results c tr = true <->
  tr = map OReceived results ++ [OClosedEv; OReturned (last results [])].
Proof. intros. unfold accepts_trace, accepts_trace_gen. rewrite oevs_eqb_eq. reflexivity. Qed.

Lemma accepts_enum_trace_sound : forall batches c tr,
  accepts_enum_trace batches c tr = true <->
  exists sched, quiescent (run sched (enumerate_sys c batches)) /\
                consumer_view (returned_count batches) (run sched (enumerate_sys c batches)) 1 = tr.
Proof.
  intros. unfold accepts_enum_trace. rewrite enumerate_sys_optimal.
  apply accepts_trace_gen_sound.
Qed.

Lemma sd_app_l : forall x y, strictly_decreasing (x ++ y) -> strictly_decreasing x.
Proof.
  induction x as [|a x IH]; intros y H; simpl; [exact I|].
  simpl in H. destruct H as [H1 H2]. split; [|eapply IH; exact H2].
  destruct x as [|b x]; [exact I|exact H1].
Qed.

Lemma decreasing_stream_prefix : forall good costv a rest,
  is_decreasing_stream good costv (a ++ rest) -> is_decreasing_stream good costv a.
Proof.
  intros good costv a rest [H1 H2]. split.
  - apply Forall_app in H1. destruct H1 as [H1 _]. exact H1.
  - rewrite map_app in H2. eapply sd_app_l. exact H2.
Qed.

Lemma stream_values : forall good costv c results sched,
  is_decreasing_stream good costv results ->
  let s := run sched (optimal_sys c results) in
  is_decreasing_stream good costv (received s 1) /\
  (quiescent s -> received s 1 = results /\ last (received s 1) [] = returned results).
Proof.
  intros good costv c results sched Hd s.
  destruct (optimal_protocol c results sched) as [Hs [Hdone _]].
  destruct Hs as [_ [[rest Hrest] _]]. fold s in Hrest. split.
  - rewrite Hrest in Hd. eapply decreasing_stream_prefix. exact Hd.
  - intro Hq. destruct (Hdone Hq) as [_ [_ [Hr [Hl _]]]]. split; assumption.
Qed.

Lemma forwarder_stream_values : forall (good good' : value -> Prop) costv c trim results sched,
  (forall v, good v -> good' (trim v)) -> (forall v, costv (trim v) = costv v) ->
  is_decreasing_stream good costv results ->
  let s := run sched (forwarder_sys c trim results) in
  is_decreasing_stream good' costv (received s 2) /\
  (quiescent s -> received s 2 = map trim results).
Proof.
  intros good good' costv c trim results sched Hg Hc Hd s.
  assert (Hd' : is_decreasing_stream good' costv (map trim results)).
  { destruct Hd as [H1 H2]. split.
    - apply Forall_forall. intros x Hx. apply in_map_iff in Hx. destruct Hx as [v [<- Hv]].
      apply Hg. rewrite Forall_forall in H1. apply H1. exact Hv.
    - rewrite map_map. rewrite (map_ext _ costv) by exact Hc. exact H2. }
  destruct (forwarder_protocol c trim results sched) as [[Hs _] [Hdone _]].
  destruct Hs as [_ [[rest Hrest] _]]. fold s in Hrest. split.
  - rewrite Hrest in Hd'. eapply decreasing_stream_prefix. exact Hd'.
  - intro Hq. destruct (Hdone Hq) as [[_ [_ [Hr _]]] _]. exact Hr.
Qed.

(* ------------------------------------------------------------------ *)
(* 5. Frame property: goroutines with disjoint footprints (C16)        *)

Lemma lookup_set : forall A (d : A) k k' a l,
  lookup d k' (set k a l) = if k =? k' then a else lookup d k' l.
Proof.
  intros A d k k' a l. destruct (k =? k') eqn:E.
  - apply Nat.eqb_eq in E. subst. apply lookup_set_same.
  - apply Nat.eqb_neq in E. apply lookup_set_other. exact E.
Qed.

Lemma length_upd_nth : forall A n (a : A) l, length (upd_nth n a l) = length l.
Proof.
  intros A n a l. revert n. induction l as [|x l IH]; intros n; destruct n; simpl; try reflexivity.
  rewrite IH; reflexivity.
Qed.

Lemma nth_upd_nth_same : forall A n (a d : A) l, n < length l -> nth n (upd_nth n a l) d = a.
Proof.
  intros A n a d l. revert n. induction l as [|x l IH]; intros n H; simpl in *; [lia|].
  destruct n; simpl; [reflexivity|apply IH; lia].
Qed.

Lemma nth_upd_nth_other : forall A n m (a d : A) l, n <> m -> nth m (upd_nth n a l) d = nth m l d.
Proof.
  intros A n m a d l. revert n m. induction l as [|x l IH]; intros n m H.
  - destruct n; reflexivity.
  - destruct n; destruct m; simpl; try reflexivity; [contradiction|apply IH; lia].
Qed.

Lemma nth_error_getthread : forall s t th, nth_error (threads s) t = Some th -> getthread s t = th.
Proof. intros s t th H. unfold getthread. apply nth_error_nth. exact H. Qed.

Lemma nth_error_lt : forall A (l : list A) n x, nth_error l n = Some x -> n < length l.
Proof. intros A l n x H. apply nth_error_Some. rewrite H. discriminate. Qed.

Lemma getthread_none : forall s t, nth_error (threads s) t = None -> getthread s t = Thread [] [].
Proof.
  intros s t H. unfold getthread. apply nth_overflow. apply nth_error_None. exact H.
Qed.

Lemma find_from_none : forall B (f : thread -> option B) skip l i,
  (forall y, y + i <> skip -> f (nth y l (Thread [] [])) = None) ->
  f (Thread [] []) = None ->
  find_from f skip i l = None.
Proof.
  intros B f skip l. induction l as [|th l IH]; intros i H Hd; simpl; [reflexivity|].
  destruct (i =? skip) eqn:E.
  - apply IH; [|exact Hd]. intros y Hy. specialize (H (S y)). simpl in H. apply H. lia.
  - apply Nat.eqb_neq in E. pose proof (H 0 ltac:(simpl; lia)) as H0. simpl in H0. rewrite H0.
    apply IH; [|exact Hd]. intros y Hy. specialize (H (S y)). simpl in H. apply H. lia.
Qed.

Lemma find_from_some : forall B (f : thread -> option B) skip l i r b,
  find_from f skip i l = Some (r, b) ->
  r <> skip /\ i <= r /\ nth_error l (r - i) <> None /\ f (nth (r - i) l (Thread [] [])) = Some b.
Proof.
  intros B f skip l. induction l as [|th l IH]; intros i r b H; simpl in H; [discriminate|].
  destruct (i =? skip) eqn:E.
  - apply IH in H. destruct H as [H1 [H2 [H3 H4]]].
    replace (r - i) with (S (r - S i)) by lia. simpl. repeat split; auto; lia.
  - apply Nat.eqb_neq in E. destruct (f th) eqn:Ef.
    + injection H as <- <-. rewrite Nat.sub_diag. simpl. repeat split; auto. discriminate.
    + apply IH in H. destruct H as [H1 [H2 [H3 H4]]].
      replace (r - i) with (S (r - S i)) by lia. simpl. repeat split; auto; lia.
Qed.

(* the channel an instruction operates on *)
Definition instr_chan (i : instr) : option nat :=
  match i with
  | Send c _ | Recv c | Range c _ _ | Close c => Some c
  | _ => None
  end.
Definition instr_cell (i : instr) : option nat :=
  match i with Write c _ | Read c => Some c | _ => None end.

Definition head_chan (th : thread) : option nat :=
  match code th with i :: _ => instr_chan i | [] => None end.

Lemma wants_recv_head : forall ch th u, wants_recv ch th = Some u -> head_chan th = Some ch.
Proof.
  intros ch th u H. unfold wants_recv, head_chan in *.
  destruct (code th) as [|i r]; [discriminate|].
  destruct i; simpl in *; try discriminate;
    destruct (_ =? ch) eqn:E; try discriminate; apply Nat.eqb_eq in E; subst; reflexivity.
Qed.

Lemma wants_send_head : forall ch th v, wants_send ch th = Some v -> head_chan th = Some ch.
Proof.
  intros ch th v H. unfold wants_send, head_chan in *.
  destruct (code th) as [|i r]; [discriminate|].
  destruct i; simpl in *; try discriminate.
  destruct (_ =? ch) eqn:E; try discriminate. apply Nat.eqb_eq in E; subst; reflexivity.
Qed.

Section Frame.
Variables C K : nat -> nat -> Prop.
Hypothesis Cdisj : forall t t' x, t <> t' -> ~ (C t x /\ C t' x).
Hypothesis Kdisj : forall t t' x, t <> t' -> ~ (K t x /\ K t' x).

Definition FP (s : sys) : Prop :=
  forall t i, In i (code (getthread s t)) -> uses (C t) (K t) i.

Lemma FP_head_chan : forall s t ch, FP s -> head_chan (getthread s t) = Some ch -> C t ch.
Proof.
  intros s t ch H Hh. unfold head_chan in Hh.
  destruct (code (getthread s t)) as [|i r] eqn:E; [discriminate|].
  assert (Hu : uses (C t) (K t) i) by (apply H; rewrite E; left; reflexivity).
  destruct Hu; simpl in Hh; try discriminate; injection Hh as <-; assumption.
Qed.

(* under disjoint footprints nobody can be the partner of a rendezvous *)
Lemma no_recv_partner : forall s t ch, FP s -> C t ch ->
  find_from (wants_recv ch) t 0 (threads s) = None.
Proof.
  intros s t ch H Hc. apply find_from_none; [|reflexivity].
  intros y Hy. destruct (wants_recv ch (nth y (threads s) (Thread [] []))) as [u|] eqn:E; [|reflexivity].
  exfalso. apply wants_recv_head in E.
  apply (Cdisj t y ch); [lia|]. split; [exact Hc|]. eapply FP_head_chan; eauto.
Qed.

Lemma no_send_partner : forall s t ch, FP s -> C t ch ->
  find_from (wants_send ch) t 0 (threads s) = None.
Proof.
  intros s t ch H Hc. apply find_from_none; [|reflexivity].
  intros y Hy. destruct (wants_send ch (nth y (threads s) (Thread [] []))) as [u|] eqn:E; [|reflexivity].
  exfalso. apply wants_send_head in E.
  apply (Cdisj t y ch); [lia|]. split; [exact Hc|]. eapply FP_head_chan; eauto.
Qed.

(* One step of goroutine t under FP, described without the other goroutines.
   [local_step th c cellv] gives the new thread, the new channel state (if
   changed), the written cell (if any), and whether it panics. *)
Inductive lres :=
| LBlocked
| LPanic
| LNext (th' : thread) (newc : option (nat * chan)) (neww : option (nat * value)).

Definition local_step (th : thread) (getch : nat -> chan) (getce : nat -> value) : lres :=
  match code th with
  | [] => LBlocked
  | Send ch v :: _ =>
      let c := getch ch in
      if closed c then LPanic
      else if cap c =? 0 then LBlocked
      else if length (queue c) <? cap c then
        LNext (advance th) (Some (ch, Chan (cap c) (queue c ++ [v]) false (S (nsent c)) (nrecv c))) None
      else LBlocked
  | Recv ch :: _ | Range ch _ _ :: _ =>
      let c := getch ch in
      match queue c with
      | v :: q => LNext (deliver th (Some v))
                        (Some (ch, Chan (cap c) q (closed c) (nsent c) (S (nrecv c)))) None
      | [] => if closed c then LNext (deliver th None) None None else LBlocked
      end
  | Close ch :: _ =>
      let c := getch ch in
      if closed c then LPanic
      else LNext (advance th) (Some (ch, Chan (cap c) (queue c) true (nsent c) (nrecv c))) None
  | Write cell v :: _ => LNext (advance th) None (Some (cell, v))
  | Read cell :: _ => LNext (Thread (tl (code th)) (log th ++ [ORead (getce cell)])) None None
  end.

Definition matches (s : sys) (t : nat) (r : lres) (o : option sys) : Prop :=
  match r, o with
  | LBlocked, None => True
  | LPanic, Some s' => panic s' = true /\ threads s' = threads s /\ chans s' = chans s /\ cells s' = cells s
  | LNext th' newc neww, Some s' =>
      panic s' = false /\ threads s' = upd_nth t th' (threads s) /\
      chans s' = match newc with Some (ch, c) => set ch c (chans s) | None => chans s end /\
      cells s' = match neww with Some (k, v) => set k v (cells s) | None => cells s end
  | _, _ => False
  end.

Lemma step_local : forall s t th, FP s -> panic s = false ->
  nth_error (threads s) t = Some th ->
  matches s t (local_step th (getc s) (getcell s)) (step s t).
Proof.
  intros s t th Hfp Hp Hth.
  pose proof (nth_error_getthread _ _ _ Hth) as Hg.
  unfold step, local_step. rewrite Hp, Hth.
  destruct (code th) as [|i rest] eqn:Hc; [exact I|].
  assert (Hhead : forall ch, instr_chan i = Some ch -> C t ch).
  { intros ch Hi. apply (FP_head_chan s t ch Hfp). unfold head_chan. rewrite Hg, Hc. exact Hi. }
  destruct i as [ch v|ch|ch body brk|ch|cell v|cell]; simpl.
  - destruct (closed (getc s ch)); [simpl; auto|].
    destruct (cap (getc s ch) =? 0).
    + rewrite (no_recv_partner s t ch Hfp (Hhead ch eq_refl)). exact I.
    + destruct (length (queue (getc s ch)) <? cap (getc s ch)); simpl; auto.
  - unfold recv_step. destruct (queue (getc s ch)); [|simpl; auto].
    destruct (closed (getc s ch)); [simpl; auto|].
    destruct (cap (getc s ch) =? 0); [|exact I].
    rewrite (no_send_partner s t ch Hfp (Hhead ch eq_refl)). exact I.
  - unfold recv_step. destruct (queue (getc s ch)); [|simpl; auto].
    destruct (closed (getc s ch)); [simpl; auto|].
    destruct (cap (getc s ch) =? 0); [|exact I].
    rewrite (no_send_partner s t ch Hfp (Hhead ch eq_refl)). exact I.
  - destruct (closed (getc s ch)); simpl; auto.
  - simpl; auto.
  - simpl; auto.
Qed.

Definition head_cell (th : thread) : option nat :=
  match code th with i :: _ => instr_cell i | [] => None end.

Lemma FP_head_cell : forall s t k, FP s -> head_cell (getthread s t) = Some k -> K t k.
Proof.
  intros s t k H Hh. unfold head_cell in Hh.
  destruct (code (getthread s t)) as [|i r] eqn:E; [discriminate|].
  assert (Hu : uses (C t) (K t) i) by (apply H; rewrite E; left; reflexivity).
  destruct Hu; simpl in Hh; try discriminate; injection Hh as <-; assumption.
Qed.

Lemma local_step_ext : forall th g g' h h',
  (forall ch, head_chan th = Some ch -> g ch = g' ch) ->
  (forall k, head_cell th = Some k -> h k = h' k) ->
  local_step th g h = local_step th g' h'.
Proof.
  intros th g g' h h' Hg Hh. unfold local_step, head_chan, head_cell in *.
  destruct (code th) as [|i rest]; [reflexivity|].
  destruct i as [ch v|ch|ch body brk|ch|cell v|cell]; simpl in *;
    try rewrite (Hg ch eq_refl); try rewrite (Hh cell eq_refl); reflexivity.
Qed.

Lemma local_step_newc : forall th g h th' ch c w,
  local_step th g h = LNext th' (Some (ch, c)) w -> head_chan th = Some ch.
Proof.
  intros th g h th' ch c w H. unfold local_step, head_chan in *.
  destruct (code th) as [|i rest]; [discriminate|].
  destruct i as [ch0 v|ch0|ch0 body brk|ch0|cell v|cell]; simpl in *.
  - destruct (closed (g ch0)); [discriminate|]. destruct (cap (g ch0) =? 0); [discriminate|].
    destruct (length (queue (g ch0)) <? cap (g ch0)); [|discriminate]. injection H as _ <- _ _. reflexivity.
  - destruct (queue (g ch0)); [destruct (closed (g ch0)); discriminate|].
    injection H as _ <- _ _. reflexivity.
  - destruct (queue (g ch0)); [destruct (closed (g ch0)); discriminate|].
    injection H as _ <- _ _. reflexivity.
  - destruct (closed (g ch0)); [discriminate|]. injection H as _ <- _ _. reflexivity.
  - discriminate.
  - discriminate.
Qed.

Lemma local_step_neww : forall th g h th' nc k v,
  local_step th g h = LNext th' nc (Some (k, v)) -> head_cell th = Some k.
Proof.
  intros th g h th' nc k v H. unfold local_step, head_cell in *.
  destruct (code th) as [|i rest]; [discriminate|].
  destruct i as [ch0 v0|ch0|ch0 body brk|ch0|cell v0|cell]; simpl in *.
  - destruct (closed (g ch0)); [discriminate|]. destruct (cap (g ch0) =? 0); [discriminate|].
    destruct (length (queue (g ch0)) <? cap (g ch0)); discriminate.
  - destruct (queue (g ch0)); [destruct (closed (g ch0)); discriminate|discriminate].
  - destruct (queue (g ch0)); [destruct (closed (g ch0)); discriminate|discriminate].
  - destruct (closed (g ch0)); discriminate.
  - injection H as _ _ <- _. reflexivity.
  - discriminate.
Qed.

Lemma local_step_uses : forall th g h th' nc nw (P : instr -> Prop),
  (forall ch body brk, P (Range ch body brk) -> forall v i, In i (body v) -> P i) ->
  (forall i, In i (code th) -> P i) ->
  local_step th g h = LNext th' nc nw -> forall i, In i (code th') -> P i.
Proof.
  intros th g h th' nc nw P Hbody Hall H. unfold local_step in H.
  destruct (code th) as [|i0 rest] eqn:Hc; [discriminate|].
  assert (Hrest : forall i, In i rest -> P i) by (intros i Hi; apply Hall; right; exact Hi).
  assert (Hadv : forall i, In i (code (advance th)) -> P i).
  { intros i Hi. unfold advance in Hi. simpl in Hi. rewrite Hc in Hi. simpl in Hi. auto. }
  assert (Hdel : forall o i, In i (code (deliver th o)) -> P i).
  { intros o i Hi. unfold deliver in Hi. rewrite Hc in Hi.
    destruct i0 as [ch0 v0|ch0|ch0 body brk|ch0|cell v0|cell].
    - rewrite Hc in Hi. apply Hall. exact Hi.
    - simpl in Hi. apply Hrest. exact Hi.
    - destruct o as [v|]; simpl in Hi; [|apply Hrest; exact Hi].
      apply in_app_or in Hi. destruct Hi as [Hi|Hi].
      + eapply Hbody; [apply Hall; left; reflexivity|exact Hi].
      + destruct (brk v); [apply Hrest; exact Hi|]. apply Hall. exact Hi.
    - rewrite Hc in Hi. apply Hall. exact Hi.
    - rewrite Hc in Hi. apply Hall. exact Hi.
    - rewrite Hc in Hi. apply Hall. exact Hi. }
  destruct i0 as [ch0 v0|ch0|ch0 body brk|ch0|cell v0|cell]; simpl in H.
  - destruct (closed (g ch0)); [discriminate|]. destruct (cap (g ch0) =? 0); [discriminate|].
    destruct (length (queue (g ch0)) <? cap (g ch0)); [|discriminate]. injection H as <- _ _. exact Hadv.
  - destruct (queue (g ch0)); [destruct (closed (g ch0)); [|discriminate]|];
      injection H as <- _ _; apply Hdel.
  - destruct (queue (g ch0)); [destruct (closed (g ch0)); [|discriminate]|];
      injection H as <- _ _; apply Hdel.
  - destruct (closed (g ch0)); [discriminate|]. injection H as <- _ _. exact Hadv.
  - injection H as <- _ _. exact Hadv.
  - injection H as <- _ _. simpl. exact Hrest.
Qed.

Lemma getthread_upd : forall s s' t x th', threads s' = upd_nth t th' (threads s) ->
  t < length (threads s) ->
  getthread s' x = if x =? t then th' else getthread s x.
Proof.
  intros s s' t x th' H Hlt. unfold getthread. rewrite H.
  destruct (x =? t) eqn:E.
  - apply Nat.eqb_eq in E. subst. apply nth_upd_nth_same. exact Hlt.
  - apply Nat.eqb_neq in E. apply nth_upd_nth_other. lia.
Qed.

Lemma step_FP : forall s t s', FP s -> step s t = Some s' -> FP s'.
Proof.
  intros s t s' Hfp Hstep.
  destruct (panic s) eqn:Hp; [rewrite step_panic_none in Hstep by exact Hp; discriminate|].
  destruct (nth_error (threads s) t) as [th|] eqn:Hth.
  2:{ unfold step in Hstep. rewrite Hp, Hth in Hstep. discriminate. }
  pose proof (step_local s t th Hfp Hp Hth) as Hm. rewrite Hstep in Hm.
  pose proof (nth_error_getthread _ _ _ Hth) as Hg.
  pose proof (nth_error_lt _ _ _ _ Hth) as Hlt.
  destruct (local_step th (getc s) (getcell s)) as [| |th' nc nw] eqn:El; simpl in Hm; [contradiction| |].
  - destruct Hm as [_ [Ht _]]. intros x i Hi. unfold getthread in Hi. rewrite Ht in Hi. apply Hfp. exact Hi.
  - destruct Hm as [_ [Ht _]]. intros x i Hi.
    rewrite (getthread_upd s s' t x th' Ht Hlt) in Hi.
    destruct (x =? t) eqn:E; [|apply Hfp; exact Hi].
    apply Nat.eqb_eq in E. subst x.
    eapply (local_step_uses th _ _ th' nc nw (uses (C t) (K t))); eauto.
    + intros ch body brk Hu v i0 Hi0. inversion Hu; subst. eauto.
    + intros i0 Hi0. apply Hfp. rewrite Hg. exact Hi0.
Qed.

(* the relation between the whole system and goroutine t alone *)
Variable t : nat.

Definition others_empty (a : sys) : Prop := forall j, j <> t -> code (getthread a j) = [].

Definition Rel (s a : sys) : Prop :=
  panic a = panic s /\ length (threads a) = length (threads s) /\
  getthread a t = getthread s t /\
  (forall ch, C t ch -> getc a ch = getc s ch) /\
  (forall k, K t k -> getcell a k = getcell s k) /\
  others_empty a.

(* the whole system has been stopped by the panic of another goroutine *)
Definition Frozen (s a : sys) : Prop :=
  panic s = true /\ FP a /\ others_empty a /\
  (finished (getthread s t) = true -> getthread a t = getthread s t).

Lemma step_empty : forall a j, code (getthread a j) = [] -> step a j = None.
Proof.
  intros a j H. unfold step. destruct (panic a); [reflexivity|].
  destruct (nth_error (threads a) j) as [th|] eqn:E; [|reflexivity].
  rewrite (nth_error_getthread _ _ _ E) in H. rewrite H. reflexivity.
Qed.

Lemma Rel_FP : forall s a, FP s -> Rel s a -> FP a.
Proof.
  intros s a Hfp [_ [_ [Ht [_ [_ Ho]]]]] x i Hi.
  destruct (Nat.eq_dec x t) as [->|Hne].
  - rewrite Ht in Hi. apply Hfp. exact Hi.
  - rewrite (Ho x Hne) in Hi. destruct Hi.
Qed.

Definition stepx (s : sys) (x : nat) : sys :=
  match step s x with Some s' => s' | None => s end.

Lemma frame_step_self : forall s a, FP s -> Rel s a -> Rel (stepx s t) (stepx a t).
Proof.
  intros s a Hfp Hrel. pose proof (Rel_FP s a Hfp Hrel) as Hfa.
  destruct Hrel as [Hp [Hlen [Ht [Hc [Hk Ho]]]]]. unfold stepx.
  destruct (panic s) eqn:Hps.
  { rewrite (step_panic_none s t Hps), (step_panic_none a t) by (rewrite Hp; reflexivity).
    (split; [congruence|exact (conj Hlen (conj Ht (conj Hc (conj Hk Ho))))]). }
  destruct (nth_error (threads s) t) as [th|] eqn:Hth.
  2:{ assert (Hth' : nth_error (threads a) t = None).
      { apply nth_error_None. apply nth_error_None in Hth. lia. }
      unfold step. rewrite Hps, Hp, Hth, Hth'. (split; [congruence|exact (conj Hlen (conj Ht (conj Hc (conj Hk Ho))))]). }
  pose proof (nth_error_getthread _ _ _ Hth) as Hg.
  pose proof (nth_error_lt _ _ _ _ Hth) as Hlt.
  assert (Hth' : nth_error (threads a) t = Some th).
  { destruct (nth_error (threads a) t) as [th2|] eqn:E.
    - rewrite <- (nth_error_getthread _ _ _ E), Ht, Hg. reflexivity.
    - apply nth_error_None in E. lia. }
  pose proof (step_local s t th Hfp Hps Hth) as Hm.
  pose proof (step_local a t th Hfa Hp Hth') as Hm'.
  assert (Hext : local_step th (getc a) (getcell a) = local_step th (getc s) (getcell s)).
  { apply local_step_ext.
    - intros ch Hh. apply Hc. apply (FP_head_chan s t ch Hfp). rewrite Hg. exact Hh.
    - intros k Hh. apply Hk. apply (FP_head_cell s t k Hfp). rewrite Hg. exact Hh. }
  rewrite Hext in Hm'.
  destruct (local_step th (getc s) (getcell s)) as [| |th' nc nw] eqn:El.
  - destruct (step s t); [contradiction|]. destruct (step a t); [contradiction|].
    (split; [congruence|exact (conj Hlen (conj Ht (conj Hc (conj Hk Ho))))]).
  - destruct (step s t) as [s'|]; [|contradiction]. destruct (step a t) as [a'|]; [|contradiction].
    simpl in Hm, Hm'. destruct Hm as [M1 [M2 [M3 M4]]]. destruct Hm' as [N1 [N2 [N3 N4]]].
    unfold Rel, others_empty, getthread, getc, getcell in *.
    rewrite M1, M2, M3, M4, N1, N2, N3, N4. (split; [congruence|exact (conj Hlen (conj Ht (conj Hc (conj Hk Ho))))]).
  - destruct (step s t) as [s'|]; [|contradiction]. destruct (step a t) as [a'|]; [|contradiction].
    simpl in Hm, Hm'. destruct Hm as [M1 [M2 [M3 M4]]]. destruct Hm' as [N1 [N2 [N3 N4]]].
    assert (Hlt' : t < length (threads a)) by lia.
    split; [rewrite M1, N1; reflexivity|].
    split; [rewrite M2, N2, !length_upd_nth; exact Hlen|].
    split; [rewrite (getthread_upd s s' t t th' M2 Hlt), (getthread_upd a a' t t th' N2 Hlt'), Nat.eqb_refl; reflexivity|].
    split; [|split].
    + intros ch Hch. unfold getc. rewrite M3, N3. destruct nc as [[ch0 c0]|]; [|apply Hc; exact Hch].
      rewrite !lookup_set. destruct (ch0 =? ch); [reflexivity|apply Hc; exact Hch].
    + intros k Hkk. unfold getcell. rewrite M4, N4. destruct nw as [[k0 v0]|]; [|apply Hk; exact Hkk].
      rewrite !lookup_set. destruct (k0 =? k); [reflexivity|apply Hk; exact Hkk].
    + intros j Hj. rewrite (getthread_upd a a' t j th' N2 Hlt').
      destruct (j =? t) eqn:E; [apply Nat.eqb_eq in E; contradiction|]. apply Ho. exact Hj.
Qed.

Lemma frame_step_other : forall s a j, FP s -> Rel s a -> j <> t ->
  Rel (stepx s j) (stepx a j) \/ Frozen (stepx s j) (stepx a j).
Proof.
  intros s a j Hfp Hrel Hj. pose proof (Rel_FP s a Hfp Hrel) as Hfa.
  destruct Hrel as [Hp [Hlen [Ht [Hc [Hk Ho]]]]]. unfold stepx.
  rewrite (step_empty a j (Ho j Hj)).
  destruct (step s j) as [s'|] eqn:Hstep; [|left; repeat split; auto].
  destruct (panic s) eqn:Hps; [rewrite step_panic_none in Hstep by exact Hps; discriminate|].
  destruct (nth_error (threads s) j) as [th|] eqn:Hth.
  2:{ unfold step in Hstep. rewrite Hps, Hth in Hstep. discriminate. }
  pose proof (nth_error_getthread _ _ _ Hth) as Hg.
  pose proof (nth_error_lt _ _ _ _ Hth) as Hlt.
  pose proof (step_local s j th Hfp Hps Hth) as Hm. rewrite Hstep in Hm.
  destruct (local_step th (getc s) (getcell s)) as [| |th' nc nw] eqn:El; simpl in Hm; [contradiction| |].
  - right. destruct Hm as [M1 [M2 _]]. split; [exact M1|]. split; [exact Hfa|]. split; [exact Ho|].
    intros _. unfold getthread in *. rewrite M2. exact Ht.
  - left. destruct Hm as [M1 [M2 [M3 M4]]].
    split; [rewrite M1; rewrite Hp; reflexivity|].
    split; [rewrite M2, length_upd_nth; exact Hlen|].
    split; [rewrite (getthread_upd s s' j t th' M2 Hlt);
            destruct (t =? j) eqn:E; [apply Nat.eqb_eq in E; subst; contradiction|exact Ht]|].
    split; [|split; [|exact Ho]].
    + intros ch Hch. unfold getc. rewrite M3. destruct nc as [[ch0 c0]|]; [|apply Hc; exact Hch].
      rewrite lookup_set. destruct (ch0 =? ch) eqn:E; [|apply Hc; exact Hch].
      apply Nat.eqb_eq in E. subst ch0. exfalso.
      apply local_step_newc in El. apply (Cdisj t j ch); [auto|]. split; [exact Hch|].
      apply (FP_head_chan s j ch Hfp). rewrite Hg. exact El.
    + intros k Hkk. unfold getcell. rewrite M4. destruct nw as [[k0 v0]|]; [|apply Hk; exact Hkk].
      rewrite lookup_set. destruct (k0 =? k) eqn:E; [|apply Hk; exact Hkk].
      apply Nat.eqb_eq in E. subst k0. exfalso.
      apply local_step_neww in El. apply (Kdisj t j k); [auto|]. split; [exact Hkk|].
      apply (FP_head_cell s j k Hfp). rewrite Hg. exact El.
Qed.

Lemma step_others_empty : forall a a', FP a -> others_empty a -> step a t = Some a' -> others_empty a'.
Proof.
  intros a a' Hfa Ho Hstep.
  destruct (panic a) eqn:Hp; [rewrite step_panic_none in Hstep by exact Hp; discriminate|].
  destruct (nth_error (threads a) t) as [th|] eqn:Hth.
  2:{ unfold step in Hstep. rewrite Hp, Hth in Hstep. discriminate. }
  pose proof (nth_error_lt _ _ _ _ Hth) as Hlt.
  pose proof (step_local a t th Hfa Hp Hth) as Hm. rewrite Hstep in Hm.
  destruct (local_step th (getc a) (getcell a)) as [| |th' nc nw]; simpl in Hm; [contradiction| |].
  - destruct Hm as [_ [M2 _]]. intros j Hj. unfold getthread. rewrite M2. apply Ho. exact Hj.
  - destruct Hm as [_ [M2 _]]. intros j Hj. rewrite (getthread_upd a a' t j th' M2 Hlt).
    destruct (j =? t) eqn:E; [apply Nat.eqb_eq in E; contradiction|apply Ho; exact Hj].
Qed.

Lemma frame_step_frozen : forall s a x, Frozen s a -> Frozen (stepx s x) (stepx a x).
Proof.
  intros s a x [Hp [Hfa [Ho Hf]]]. unfold stepx. rewrite (step_panic_none s x Hp). cbv iota.
  destruct (Nat.eq_dec x t) as [->|Hne].
  - destruct (finished (getthread s t)) eqn:Ef.
    + specialize (Hf eq_refl). rewrite step_empty.
      * split; [exact Hp|]. split; [exact Hfa|]. split; [exact Ho|]. intros _. exact Hf.
      * rewrite Hf. unfold finished in Ef. destruct (code (getthread s t)); [reflexivity|discriminate].
    + destruct (step a t) as [a'|] eqn:Hstep.
      * split; [exact Hp|]. split; [eapply step_FP; eauto|].
        split; [eapply step_others_empty; eauto|intro X; rewrite Ef in X; discriminate].
      * split; [exact Hp|]. split; [exact Hfa|]. split; [exact Ho|]. intro X; rewrite Ef in X; discriminate.
  - rewrite (step_empty a x (Ho x Hne)). split; [exact Hp|]. split; [exact Hfa|]. split; [exact Ho|exact Hf].
Qed.

Lemma frame_run : forall sched s a, FP s -> Rel s a \/ Frozen s a ->
  Rel (run sched s) (run sched a) \/ Frozen (run sched s) (run sched a).
Proof.
  induction sched as [|x r IH]; intros s a Hfp H; simpl; [exact H|].
  assert (Hfp' : FP (stepx s x)).
  { unfold stepx. destruct (step s x) eqn:E; [eapply step_FP; eauto|exact Hfp]. }
  assert (H' : Rel (stepx s x) (stepx a x) \/ Frozen (stepx s x) (stepx a x)).
  { destruct H as [H|H].
    - destruct (Nat.eq_dec x t) as [->|Hne]; [left; apply frame_step_self; assumption|].
      apply frame_step_other; assumption.
    - right. apply frame_step_frozen. exact H. }
  specialize (IH _ _ Hfp' H'). unfold stepx in IH.
  destruct (step s x); destruct (step a x); exact IH.
Qed.
End Frame.

Lemma keep_only_nth : forall t l i j,
  nth j (keep_only t i l) (Thread [] []) = if i + j =? t then nth j l (Thread [] []) else Thread [] [].
Proof.
  intros t l. induction l as [|th l IH]; intros i j; simpl.
  - destruct j; destruct (_ =? t); reflexivity.
  - destruct j; simpl.
    + rewrite Nat.add_0_r. reflexivity.
    + rewrite IH. replace (S i + j) with (i + S j) by lia. reflexivity.
Qed.

Lemma keep_only_length : forall t l i, length (keep_only t i l) = length l.
Proof. intros t l. induction l as [|th l IH]; intros i; simpl; [reflexivity|rewrite IH; reflexivity]. Qed.

Lemma frame : forall C K s t sched,
  disjoint_footprints C K s ->
  let s' := run sched s in
  let a' := run sched (alone t s) in
  (finished (getthread s' t) = true -> getthread a' t = getthread s' t) /\
  (panic s' = false -> getthread a' t = getthread s' t).
Proof.
  intros C K s t sched [Hfp [Cd Kd]] s' a'.
  assert (Hrel : Rel C K t s (alone t s)).
  { unfold Rel, alone, others_empty, getthread, getc, getcell. simpl.
    split; [reflexivity|]. split; [apply keep_only_length|].
    split; [rewrite keep_only_nth; simpl; rewrite Nat.eqb_refl; reflexivity|].
    split; [reflexivity|]. split; [reflexivity|].
    intros j Hj. rewrite keep_only_nth. simpl.
    destruct (j =? t) eqn:E; [apply Nat.eqb_eq in E; contradiction|reflexivity]. }
  destruct (frame_run C K Cd Kd t sched s (alone t s) Hfp (or_introl Hrel)) as [H|H]; fold s' a' in H.
  - destruct H as [_ [_ [Ht _]]]. split; intros _; exact Ht.
  - destruct H as [Hp [_ [_ Hf]]]. split; [exact Hf|]. intro X. rewrite Hp in X. discriminate.
Qed.

(* ------------------------------------------------------------------ *)
(* 6. Happens-before (C16)                                             *)

Lemma edge_lt : forall tr i j, edge tr i j = true -> i < j.
Proof.
  intros tr i j H. unfold edge in H. apply andb_true_iff in H. destruct H as [H _].
  apply Nat.ltb_lt. exact H.
Qed.

Lemma hb_lt : forall tr i j, hb tr i j -> i < j.
Proof.
  intros tr i j H. induction H as [i j H|i k j _ IH1 _ IH2].
  - eapply edge_lt; eauto.
  - lia.
Qed.

(* the decision procedure finds every happens-before pair *)
Lemma hbb_fuel_complete : forall tr i j, hb tr i j ->
  forall d, j - i <= d -> hbb_fuel d tr i j = true.
Proof.
  intros tr i j H. apply clos_trans_tn1 in H.
  induction H as [j H|m j Hmj Him IH]; intros d Hd.
  - pose proof (edge_lt _ _ _ H). destruct d as [|d]; [lia|]. simpl. rewrite H. reflexivity.
  - pose proof (edge_lt _ _ _ Hmj) as Hlt.
    assert (Him' : i < m) by (apply (hb_lt tr); apply clos_tn1_trans; exact Him).
    destruct d as [|d]; [lia|]. simpl. apply orb_true_iff. right.
    apply existsb_exists. exists m. split.
    + apply in_seq. lia.
    + rewrite Hmj. simpl. apply IH. lia.
Qed.

Lemma hbb_complete : forall tr i j, hb tr i j -> hbb tr i j = true.
Proof. intros tr i j H. apply hbb_fuel_complete; [exact H|lia]. Qed.

Lemma hbb_fuel_sound : forall d tr i j, hbb_fuel d tr i j = true -> hb tr i j.
Proof.
  induction d as [|d IH]; intros tr i j H; simpl in H; [discriminate|].
  apply orb_true_iff in H. destruct H as [H|H].
  - apply t_step. exact H.
  - apply existsb_exists in H. destruct H as [m [_ Hm]].
    apply andb_true_iff in Hm. destruct Hm as [H1 H2].
    eapply t_trans; [apply IH; exact H2|apply t_step; exact H1].
Qed.

Lemma hbb_iff : forall tr i j, hbb tr i j = true <-> hb tr i j.
Proof. intros. split; [apply hbb_fuel_sound|apply hbb_complete]. Qed.

Lemma races_complete : forall tr, races tr = [] -> race_free tr.
Proof.
  intros tr H i j a b Hij Ha Hb Hc.
  destruct (hbb tr i j) eqn:E; [apply hbb_iff; exact E|]. exfalso.
  assert (Hin : In (i, j) (races tr)).
  { unfold races. apply in_flat_map. exists j. split.
    - apply in_seq. pose proof (nth_error_Some tr j) as X. rewrite Hb in X.
      assert (j < length tr) by (apply X; discriminate). lia.
    - apply in_flat_map. exists i. split; [apply in_seq; lia|].
      rewrite Ha, Hb, Hc, E. simpl. left. reflexivity. }
  rewrite H in Hin. destruct Hin.
Qed.

Lemma races_sound : forall tr i j, In (i, j) (races tr) -> ~ race_free tr.
Proof.
  intros tr i j Hin Hrf. unfold races in Hin.
  apply in_flat_map in Hin. destruct Hin as [j' [Hj' Hin]].
  apply in_flat_map in Hin. destruct Hin as [i' [Hi' Hin]].
  apply in_seq in Hi'.
  destruct (nth_error tr i') as [a|] eqn:Ea; [|destruct Hin].
  destruct (nth_error tr j') as [b|] eqn:Eb; [|destruct Hin].
  destruct (conflict a b) eqn:Ec; simpl in Hin; [|destruct Hin].
  destruct (hbb tr i' j') eqn:Eh; simpl in Hin; [destruct Hin|].
  destruct Hin as [Heq|[]]. injection Heq as <- <-.
  assert (Hhb : hb tr i' j') by (eapply Hrf; eauto; lia).
  apply hbb_complete in Hhb. rewrite Hhb in Eh. discriminate.
Qed.

(* the program before the fix has a racy execution *)
Lemma hb_unsat_subset_old_refuted :
  exists lines st brk sched,
    let tr := trace (run sched (us_old_sys lines st brk)) in
    ~ race_free tr /\
    exists i j a b, i < j /\ nth_error tr i = Some a /\ nth_error tr j = Some b /\
                    conflict a b = true /\ ~ hb tr i j /\ ~ hb tr j i.
Proof.
  exists [[0%Z]], [2%Z], is_empty_clause, [0; 0; 1].
  split.
  - apply (races_sound _ 2 3). vm_compute. left. reflexivity.
  - exists 2, 3, (ERead 0 0), (EWrite 1 0).
    split; [lia|]. split; [reflexivity|]. split; [reflexivity|]. split; [reflexivity|].
    split.
    + intro H. apply hbb_complete in H. vm_compute in H. discriminate.
    + intro H. apply hb_lt in H. lia.
Qed.

(* ... and an execution in which the solving goroutine stays blocked for ever *)
Lemma unsat_subset_old_leak :
  exists lines st brk sched,
    let s := run sched (us_old_sys lines st brk) in
    quiescentb s = true /\ all_finished s = false /\ finished (getthread s 0) = true.
Proof.
  exists [[0%Z]; [4%Z]], [2%Z], is_empty_clause, [0; 0]. vm_compute. auto.
Qed.

Lemma quiescentb_sound : forall s, quiescentb s = true -> quiescent s.
Proof.
  intros s H t. unfold quiescentb in H. rewrite forallb_forall in H.
  destruct (Nat.lt_ge_cases t (length (threads s))) as [Hlt|Hge].
  - specialize (H t ltac:(apply in_seq; lia)). unfold enabled in H.
    destruct (step s t); [discriminate|reflexivity].
  - apply step_out_of_range. exact Hge.
Qed.

(* ---- the fixed UnsatSubset: every execution is race free ---- *)

Definition eW := EWrite 1 0.     (* the solving goroutine writes its status     *)
Definition eS := ESend 1 1 0.    (* ... and sends it on statusCh                *)
Definition eRv := ERecv 0 1 0.   (* the caller receives it                      *)
Definition eRd := ERead 0 0.     (* the caller reads the status cell (ghost)    *)

Lemma nth_error_snoc : forall A (l : list A) e i x,
  nth_error (l ++ [e]) i = Some x ->
  (i < length l /\ nth_error l i = Some x) \/ (i = length l /\ x = e).
Proof.
  intros A l e i x H. destruct (Nat.lt_ge_cases i (length l)) as [Hlt|Hge].
  - left. rewrite nth_error_app1 in H by exact Hlt. auto.
  - right. rewrite nth_error_app2 in H by exact Hge.
    destruct (i - length l) as [|k] eqn:E; simpl in H.
    + injection H as <-. split; [lia|reflexivity].
    + destruct k; discriminate.
Qed.

Lemma nth_error_snoc_l : forall A (l : list A) e i x,
  nth_error l i = Some x -> nth_error (l ++ [e]) i = Some x.
Proof.
  intros A l e i x H. rewrite nth_error_app1; [exact H|].
  apply nth_error_Some. rewrite H. discriminate.
Qed.

Lemma nth_error_snoc_last : forall A (l : list A) e, nth_error (l ++ [e]) (length l) = Some e.
Proof. intros. rewrite nth_error_app2 by lia. rewrite Nat.sub_diag. reflexivity. Qed.

(* invariant of the trace; the flags say which of the key events have occurred *)
Record TI (sS sRv sRd : bool) (tr : list ev) : Prop := {
  ti_acc : forall i e, nth_error tr i = Some e -> cell_access e <> None -> e = eW \/ e = eRd;
  ti_ws : forall a b, nth_error tr a = Some eW -> nth_error tr b = Some eS -> a < b;
  ti_rd : forall j, nth_error tr j = Some eRd -> exists c, c < j /\ nth_error tr c = Some eRv;
  ti_rv : forall c, nth_error tr c = Some eRv -> exists b, b < c /\ nth_error tr b = Some eS;
  ti_wr : forall a j, nth_error tr a = Some eW -> nth_error tr j = Some eRd -> a < j;
  ti_noS : sS = false -> ~ In eS tr;
  ti_S : sS = true -> In eS tr;
  ti_noRd : sRd = false -> ~ In eRd tr;
  ti_Rv : sRv = true -> In eRv tr }.

Lemma TI_nil : TI false false false [].
Proof.
  constructor; try (intros; discriminate); try (intros _ []).
  - intros i e H. destruct i; discriminate.
  - intros a b H. destruct a; discriminate.
  - intros j H. destruct j; discriminate.
  - intros c H. destruct c; discriminate.
  - intros a j H. destruct a; discriminate.
Qed.

Lemma in_snoc : forall A (x e : A) l, In x (l ++ [e]) <-> In x l \/ x = e.
Proof.
  intros. rewrite in_app_iff. simpl. split; intros [H|H]; auto.
  - destruct H as [H|[]]; auto.
Qed.

(* an event that is neither a cell access nor one of the key events *)
Lemma TI_other : forall sS sRv sRd tr e, TI sS sRv sRd tr ->
  cell_access e = None -> e <> eS -> e <> eRv -> TI sS sRv sRd (tr ++ [e]).
Proof.
  intros sS sRv sRd tr e T Hc HS HRv.
  assert (HW : e <> eW) by (intro X; rewrite X in Hc; discriminate).
  assert (HRd : e <> eRd) by (intro X; rewrite X in Hc; discriminate).
  constructor.
  - intros i x H Hx. apply nth_error_snoc in H. destruct H as [[_ H]|[_ ->]].
    + eapply ti_acc; eauto.
    + contradiction.
  - intros a b Ha Hb. apply nth_error_snoc in Ha. apply nth_error_snoc in Hb.
    destruct Ha as [[_ Ha]|[_ Ha]]; [|symmetry in Ha; contradiction].
    destruct Hb as [[_ Hb]|[_ Hb]]; [|symmetry in Hb; contradiction].
    eapply ti_ws; eauto.
  - intros j Hj. apply nth_error_snoc in Hj.
    destruct Hj as [[_ Hj]|[_ Hj]]; [|symmetry in Hj; contradiction].
    destruct (ti_rd _ _ _ _ T j Hj) as [c [Hc1 Hc2]]. exists c. split; [exact Hc1|].
    apply nth_error_snoc_l. exact Hc2.
  - intros c Hc'. apply nth_error_snoc in Hc'.
    destruct Hc' as [[_ Hc']|[_ Hc']]; [|symmetry in Hc'; contradiction].
    destruct (ti_rv _ _ _ _ T c Hc') as [b [Hb1 Hb2]]. exists b. split; [exact Hb1|].
    apply nth_error_snoc_l. exact Hb2.
  - intros a j Ha Hj. apply nth_error_snoc in Ha. apply nth_error_snoc in Hj.
    destruct Ha as [[_ Ha]|[_ Ha]]; [|symmetry in Ha; contradiction].
    destruct Hj as [[_ Hj]|[_ Hj]]; [|symmetry in Hj; contradiction].
    eapply ti_wr; eauto.
  - intros H X. apply in_snoc in X. destruct X as [X|X]; [eapply ti_noS; eauto|auto].
  - intros H. apply in_snoc. left. eapply ti_S; eauto.
  - intros H X. apply in_snoc in X. destruct X as [X|X]; [eapply ti_noRd; eauto|auto].
  - intros H. apply in_snoc. left. eapply ti_Rv; eauto.
Qed.

Lemma In_nth_error_lt : forall A (l : list A) x, In x l -> exists i, i < length l /\ nth_error l i = Some x.
Proof.
  intros A l x H. apply In_nth_error in H. destruct H as [i Hi]. exists i. split; [|exact Hi].
  apply nth_error_Some. rewrite Hi. discriminate.
Qed.

Ltac old_or_new H :=
  apply nth_error_snoc in H; destruct H as [[? H]|[? H]].

(* the write: nothing was sent on statusCh and nothing was read yet *)
Lemma TI_write : forall tr, TI false false false tr -> TI false false false (tr ++ [eW]).
Proof.
  intros tr T. constructor.
  - intros i x H Hx. old_or_new H; [eapply ti_acc; eauto|left; exact H].
  - intros a b Ha Hb. exfalso. old_or_new Hb; [|discriminate].
    eapply (ti_noS _ _ _ _ T eq_refl). eapply nth_error_In; eauto.
  - intros j Hj. exfalso. old_or_new Hj; [|discriminate].
    eapply (ti_noRd _ _ _ _ T eq_refl). eapply nth_error_In; eauto.
  - intros c Hc. old_or_new Hc; [|discriminate].
    destruct (ti_rv _ _ _ _ T c Hc) as [b [Hb1 Hb2]]. exists b. split; [exact Hb1|].
    apply nth_error_snoc_l. exact Hb2.
  - intros a j Ha Hj. exfalso. old_or_new Hj; [|discriminate].
    eapply (ti_noRd _ _ _ _ T eq_refl). eapply nth_error_In; eauto.
  - intros _ X. apply in_snoc in X. destruct X as [X|X]; [|discriminate].
    eapply ti_noS; eauto.
  - intros H; discriminate.
  - intros _ X. apply in_snoc in X. destruct X as [X|X]; [|discriminate].
    eapply ti_noRd; eauto.
  - intros H; discriminate.
Qed.

(* the send of the status *)
Lemma TI_send : forall tr, TI false false false tr -> TI true false false (tr ++ [eS]).
Proof.
  intros tr T. constructor.
  - intros i x H Hx. old_or_new H; [eapply ti_acc; eauto|]. subst x. simpl in Hx. contradiction.
  - intros a b Ha Hb. old_or_new Ha; [|discriminate].
    old_or_new Hb; [exfalso; eapply (ti_noS _ _ _ _ T eq_refl); eapply nth_error_In; eauto|lia].
  - intros j Hj. exfalso. old_or_new Hj; [|discriminate].
    eapply (ti_noRd _ _ _ _ T eq_refl). eapply nth_error_In; eauto.
  - intros c Hc. old_or_new Hc; [|discriminate].
    destruct (ti_rv _ _ _ _ T c Hc) as [b [Hb1 Hb2]]. exfalso.
    eapply (ti_noS _ _ _ _ T eq_refl). eapply nth_error_In; eauto.
  - intros a j Ha Hj. exfalso. old_or_new Hj; [|discriminate].
    eapply (ti_noRd _ _ _ _ T eq_refl). eapply nth_error_In; eauto.
  - intros H; discriminate.
  - intros _. apply in_snoc. right. reflexivity.
  - intros _ X. apply in_snoc in X. destruct X as [X|X]; [|discriminate].
    eapply ti_noRd; eauto.
  - intros H; discriminate.
Qed.

(* the receive of the status *)
Lemma TI_recv : forall tr, TI true false false tr -> TI true true false (tr ++ [eRv]).
Proof.
  intros tr T. constructor.
  - intros i x H Hx. old_or_new H; [eapply ti_acc; eauto|]. subst x. simpl in Hx. contradiction.
  - intros a b Ha Hb. old_or_new Ha; [|discriminate]. old_or_new Hb; [|discriminate].
    eapply ti_ws; eauto.
  - intros j Hj. exfalso. old_or_new Hj; [|discriminate].
    eapply (ti_noRd _ _ _ _ T eq_refl). eapply nth_error_In; eauto.
  - intros c Hc. old_or_new Hc.
    + destruct (ti_rv _ _ _ _ T c Hc) as [b [Hb1 Hb2]]. exists b. split; [exact Hb1|].
      apply nth_error_snoc_l. exact Hb2.
    + destruct (In_nth_error_lt _ _ _ (ti_S _ _ _ _ T eq_refl)) as [b [Hb1 Hb2]].
      exists b. split; [lia|]. apply nth_error_snoc_l. exact Hb2.
  - intros a j Ha Hj. exfalso. old_or_new Hj; [|discriminate].
    eapply (ti_noRd _ _ _ _ T eq_refl). eapply nth_error_In; eauto.
  - intros H; discriminate.
  - intros _. apply in_snoc. left. eapply ti_S; eauto.
  - intros _ X. apply in_snoc in X. destruct X as [X|X]; [|discriminate].
    eapply ti_noRd; eauto.
  - intros _. apply in_snoc. right. reflexivity.
Qed.

(* the read *)
Lemma TI_read : forall tr, TI true true false tr -> TI true true true (tr ++ [eRd]).
Proof.
  intros tr T. constructor.
  - intros i x H Hx. old_or_new H; [eapply ti_acc; eauto|right; exact H].
  - intros a b Ha Hb. old_or_new Ha; [|discriminate]. old_or_new Hb; [|discriminate].
    eapply ti_ws; eauto.
  - intros j Hj. old_or_new Hj.
    + exfalso. eapply (ti_noRd _ _ _ _ T eq_refl). eapply nth_error_In; eauto.
    + destruct (In_nth_error_lt _ _ _ (ti_Rv _ _ _ _ T eq_refl)) as [c [Hc1 Hc2]].
      exists c. split; [lia|]. apply nth_error_snoc_l. exact Hc2.
  - intros c Hc. old_or_new Hc; [|discriminate].
    destruct (ti_rv _ _ _ _ T c Hc) as [b [Hb1 Hb2]]. exists b. split; [exact Hb1|].
    apply nth_error_snoc_l. exact Hb2.
  - intros a j Ha Hj. old_or_new Ha; [|discriminate].
    old_or_new Hj; [exfalso; eapply (ti_noRd _ _ _ _ T eq_refl); eapply nth_error_In; eauto|lia].
  - intros H; discriminate.
  - intros _. apply in_snoc. left. eapply ti_S; eauto.
  - intros H; discriminate.
  - intros _. apply in_snoc. left. eapply ti_Rv; eauto.
Qed.

Lemma TI_race_free : forall sS sRv sRd tr, TI sS sRv sRd tr -> race_free tr.
Proof.
  intros sS sRv sRd tr T i j a b Hij Ha Hb Hc.
  assert (Haa : cell_access a <> None).
  { unfold conflict in Hc. destruct (cell_access a); [discriminate|discriminate]. }
  assert (Hbb : cell_access b <> None).
  { unfold conflict in Hc. destruct (cell_access a) as [[[t1 c1] w1]|]; [|discriminate].
    destruct (cell_access b); [discriminate|discriminate]. }
  destruct (ti_acc _ _ _ _ T i a Ha Haa) as [-> | ->];
    destruct (ti_acc _ _ _ _ T j b Hb Hbb) as [-> | ->]; try (vm_compute in Hc; discriminate).
  - (* write at i, read at j: W -> S -> Rv -> Rd *)
    destruct (ti_rd _ _ _ _ T j Hb) as [c [Hcj Hc']].
    destruct (ti_rv _ _ _ _ T c Hc') as [s [Hsc Hs]].
    pose proof (ti_ws _ _ _ _ T i s Ha Hs) as His.
    assert (E1 : edge tr i s = true).
    { unfold edge. rewrite Ha, Hs. apply andb_true_iff. split; [apply Nat.ltb_lt; exact His|reflexivity]. }
    assert (E2 : edge tr s c = true).
    { unfold edge. rewrite Hs, Hc'. apply andb_true_iff. split; [apply Nat.ltb_lt; exact Hsc|reflexivity]. }
    assert (E3 : edge tr c j = true).
    { unfold edge. rewrite Hc', Hb. apply andb_true_iff. split; [apply Nat.ltb_lt; exact Hcj|reflexivity]. }
    eapply t_trans; [apply t_step; exact E1|].
    eapply t_trans; [apply t_step; exact E2|apply t_step; exact E3].
  - (* read before write: impossible *)
    pose proof (ti_wr _ _ _ _ T j i Hb Ha). lia.
Qed.

Lemma TI_other2 : forall sS sRv sRd tr e1 e2, TI sS sRv sRd tr ->
  cell_access e1 = None -> e1 <> eS -> e1 <> eRv ->
  cell_access e2 = None -> e2 <> eS -> e2 <> eRv ->
  TI sS sRv sRd (tr ++ [e1; e2]).
Proof.
  intros. replace (tr ++ [e1; e2]) with ((tr ++ [e1]) ++ [e2]) by (rewrite <- app_assoc; reflexivity).
  apply TI_other; auto. apply TI_other; auto.
Qed.

(* the states of the solving goroutine: code, status written?, status sent?,
   certificate channel closed? *)
Inductive sol (st : value) : list instr -> bool -> bool -> bool -> Prop :=
| sol_send : forall rest,
    sol st (map (Send 0) rest ++ [Write 0 st; Send 1 st; Close 0]) false false false
| sol_w : sol st [Send 1 st; Close 0] true false false
| sol_s : sol st [Close 0] true true false
| sol_done : sol st [] true true true.

Inductive us_inv (st : value) (brk : value -> bool) : sys -> Prop :=
| ui_check : forall (drain : bool) sc sW sS clo n0 m0 lm tr,
    sol st sc sW sS clo -> TI sS false false tr ->
    us_inv st brk
      (Sys [Thread ((if drain then [] else [Range 0 (fun _ => []) brk]) ++
                    [collect 0; Recv 1; Read 0]) lm;
            Thread sc []]
           [(0, Chan 0 [] clo n0 m0);
            (1, Chan 1 (if sS then [st] else []) false (if sS then 1 else 0) 0)]
           (if sW then [(0, st)] else []) tr false)
| ui_recv : forall n0 m0 lm tr, TI true false false tr ->
    us_inv st brk
      (Sys [Thread [Recv 1; Read 0] lm; Thread [] []]
           [(0, Chan 0 [] true n0 m0); (1, Chan 1 [st] false 1 0)] [(0, st)] tr false)
| ui_read : forall n0 m0 lm tr, TI true true false tr ->
    us_inv st brk
      (Sys [Thread [Read 0] (lm ++ [OVal st]); Thread [] []]
           [(0, Chan 0 [] true n0 m0); (1, Chan 1 [] false 1 1)] [(0, st)] tr false)
| ui_done : forall n0 m0 lm tr, TI true true true tr ->
    us_inv st brk
      (Sys [Thread [] (lm ++ [OVal st; ORead st]); Thread [] []]
           [(0, Chan 0 [] true n0 m0); (1, Chan 1 [] false 1 1)] [(0, st)] tr false).

Lemma us_inv_init : forall lines st brk, us_inv st brk (us_new_sys lines st brk).
Proof.
  intros lines st brk. unfold us_new_sys, start, us_main_new, us_solver_new, mkchan. simpl.
  apply (ui_check st brk false _ false false false 0 0 [] []); [apply sol_send|apply TI_nil].
Qed.

Definition mu_us (s : sys) : nat :=
  2 * length (code (getthread s 1)) + length (code (getthread s 0)) + length (queue (getc s 1)).

Ltac mu_us_tac :=
  unfold mu_us, getthread, getc; cbn; rewrite ?app_length, ?map_length; simpl; lia.

Ltac ti_other2 T := apply TI_other2; [exact T|reflexivity|discriminate|discriminate|reflexivity|discriminate|discriminate].
Ltac ti_other T := apply TI_other; [exact T|reflexivity|discriminate|discriminate].

Lemma us_inv_step_mu : forall st brk s t s',
  us_inv st brk s -> step s t = Some s' -> us_inv st brk s' /\ mu_us s' < mu_us s.
Proof.
  intros st brk s t s' Hinv Hstep.
  destruct Hinv as [drain sc sW sS clo n0 m0 lm tr Hsol T|n0 m0 lm tr T|n0 m0 lm tr T|n0 m0 lm tr T].
  - destruct Hsol as [rest| | |].
    + (* the solver is sending certificate lines *)
      destruct rest as [|v rest].
      * destruct t as [|[|t]].
        -- destruct drain; cbn in Hstep; discriminate.
        -- destruct drain; cbn in Hstep; injection Hstep as <-; (split; [|mu_us_tac]).
           ++ apply (ui_check st brk true _ true false false n0 m0 lm); [apply sol_w|apply TI_write; exact T].
           ++ apply (ui_check st brk false _ true false false n0 m0 lm); [apply sol_w|apply TI_write; exact T].
        -- destruct drain; cbn in Hstep; destruct t; discriminate.
      * assert (Hsol' : sol st (map (Send 0) rest ++ [Write 0 st; Send 1 st; Close 0]) false false false)
          by apply sol_send.
        destruct t as [|[|t]].
        -- destruct drain; cbn in Hstep; unfold rendezvous in Hstep; cbn in Hstep.
           ++ injection Hstep as <-. split; [|mu_us_tac].
              apply (ui_check st brk true _ false false false (S n0) (S m0) (lm ++ [OVal v])); [exact Hsol'|].
              ti_other2 T.
           ++ injection Hstep as <-. split; [|destruct (brk v); mu_us_tac].
              destruct (brk v).
              ** apply (ui_check st brk true _ false false false (S n0) (S m0) (lm ++ [OVal v])); [exact Hsol'|].
                 ti_other2 T.
              ** apply (ui_check st brk false _ false false false (S n0) (S m0) (lm ++ [OVal v])); [exact Hsol'|].
                 ti_other2 T.
        -- destruct drain; cbn in Hstep; unfold rendezvous in Hstep; cbn in Hstep.
           ++ injection Hstep as <-. split; [|mu_us_tac].
              apply (ui_check st brk true _ false false false (S n0) (S m0) (lm ++ [OVal v])); [exact Hsol'|].
              ti_other2 T.
           ++ injection Hstep as <-. split; [|destruct (brk v); mu_us_tac].
              destruct (brk v).
              ** apply (ui_check st brk true _ false false false (S n0) (S m0) (lm ++ [OVal v])); [exact Hsol'|].
                 ti_other2 T.
              ** apply (ui_check st brk false _ false false false (S n0) (S m0) (lm ++ [OVal v])); [exact Hsol'|].
                 ti_other2 T.
        -- destruct drain; cbn in Hstep; destruct t; discriminate.
    + (* status written, not yet sent *)
      destruct t as [|[|t]].
      * destruct drain; cbn in Hstep; discriminate.
      * destruct drain; cbn in Hstep; injection Hstep as <-; (split; [|mu_us_tac]).
        -- apply (ui_check st brk true _ true true false n0 m0 lm); [apply sol_s|apply TI_send; exact T].
        -- apply (ui_check st brk false _ true true false n0 m0 lm); [apply sol_s|apply TI_send; exact T].
      * destruct drain; cbn in Hstep; destruct t; discriminate.
    + (* status sent, certificate channel not yet closed *)
      destruct t as [|[|t]].
      * destruct drain; cbn in Hstep; discriminate.
      * destruct drain; cbn in Hstep; injection Hstep as <-; (split; [|mu_us_tac]).
        -- apply (ui_check st brk true _ true true true n0 m0 lm); [apply sol_done|ti_other T].
        -- apply (ui_check st brk false _ true true true n0 m0 lm); [apply sol_done|ti_other T].
      * destruct drain; cbn in Hstep; destruct t; discriminate.
    + (* the solver is done; the caller sees the close *)
      destruct t as [|[|t]].
      * destruct drain; cbn in Hstep; injection Hstep as <-; (split; [|mu_us_tac]).
        -- apply ui_recv. ti_other T.
        -- apply (ui_check st brk true _ true true true n0 m0 (lm ++ [OClosed])); [apply sol_done|ti_other T].
      * destruct drain; cbn in Hstep; discriminate.
      * destruct drain; cbn in Hstep; destruct t; discriminate.
  - destruct t as [|[|t]]; cbn in Hstep; try discriminate.
    + injection Hstep as <-. split; [|mu_us_tac]. apply ui_read. apply TI_recv. exact T.
    + destruct t; discriminate.
  - destruct t as [|[|t]]; cbn in Hstep; try discriminate.
    + injection Hstep as <-. split; [|mu_us_tac].
      rewrite <- app_assoc. simpl. apply ui_done. apply TI_read. exact T.
    + destruct t; discriminate.
  - destruct t as [|[|t]]; cbn in Hstep; try discriminate. destruct t; discriminate.
Qed.

Lemma us_inv_step : forall st brk s t s', us_inv st brk s -> step s t = Some s' -> us_inv st brk s'.
Proof. intros. eapply us_inv_step_mu; eauto. Qed.

Lemma us_inv_dec : forall st brk s t s', us_inv st brk s -> step s t = Some s' -> mu_us s' < mu_us s.
Proof. intros. eapply us_inv_step_mu; eauto. Qed.

Lemma us_inv_width : forall st brk s, us_inv st brk s -> length (threads s) <= 2.
Proof. intros st brk s H. destruct H; simpl; lia. Qed.

Lemma us_inv_safe : forall st brk s, us_inv st brk s -> panic s = false /\ race_free (trace s).
Proof.
  intros st brk s H. destruct H; simpl; (split; [reflexivity|eapply TI_race_free; eauto]).
Qed.

(* the end of UnsatSubset's concurrent part: both goroutines finished (no
   goroutine is left blocked), the caller received the status [st] and reads
   the same value from the cell *)
Definition us_done (st : value) (s : sys) : Prop :=
  all_finished s = true /\ panic s = false /\
  closed (getc s 0) = true /\
  (exists lm, log (getthread s 0) = lm ++ [OVal st; ORead st]).

Lemma us_inv_live : forall st brk s, us_inv st brk s ->
  (forall t, t < 2 -> step s t = None) -> us_done st s.
Proof.
  intros st brk s Hinv Hq.
  pose proof (Hq 0 ltac:(lia)) as H0. pose proof (Hq 1 ltac:(lia)) as H1. clear Hq.
  destruct Hinv as [drain sc sW sS clo n0 m0 lm tr Hsol T|n0 m0 lm tr T|n0 m0 lm tr T|n0 m0 lm tr T].
  - exfalso. destruct Hsol as [rest| | |].
    + destruct rest as [|v rest]; destruct drain; cbn in H1; discriminate.
    + destruct drain; cbn in H1; discriminate.
    + destruct drain; cbn in H1; discriminate.
    + destruct drain; cbn in H0; discriminate.
  - exfalso. cbn in H0. discriminate.
  - exfalso. cbn in H0. discriminate.
  - unfold us_done, all_finished, getthread, getc. cbn.
    split; [reflexivity|]. split; [reflexivity|]. split; [reflexivity|]. exists lm. reflexivity.
Qed.

Lemma hb_unsat_subset : forall lines st brk sched,
  let s0 := us_new_sys lines st brk in
  let s := run sched s0 in
  panic s = false /\ race_free (trace s) /\
  (quiescent s -> us_done st s) /\
  (exists sched', quiescent (run sched' s)) /\
  (forall sched', rounds 2 (mu_us s) sched' -> quiescent (run sched' s)).
Proof.
  intros lines st brk sched s0 s.
  assert (Hinv : us_inv st brk s).
  { apply (inv_run (us_inv st brk) (us_inv_step st brk)). apply us_inv_init. }
  destruct (us_inv_safe st brk s Hinv) as [Hp Hr].
  split; [exact Hp|]. split; [exact Hr|].
  split. { intro Hq. eapply us_inv_live; eauto. }
  split. { eapply (can_finish (us_inv st brk) mu_us 2); eauto using us_inv_step, us_inv_dec, us_inv_width. }
  intros sched' Hrd. eapply (fair_terminates (us_inv st brk) mu_us 2); eauto using us_inv_step, us_inv_dec, us_inv_width.
Qed.

(* ------------------------------------------------------------------ *)
(* 7. Instances showing that the hypotheses of the theorems are        *)
(*    satisfiable (used as Examples in Properties/C16.v, C20.v)        *)

Lemma ex_decreasing_stream :
  is_decreasing_stream (fun v => length v = 3) (fun v => nth 1 v 0%Z)
    [[1; 5; 1]; [1; 3; 0]; [1; 2; 1]]%Z.
Proof. split; [repeat constructor|simpl; repeat split; reflexivity]. Qed.

Lemma ex_trim_hyps :
  (forall v, 2 <= length v -> 2 <= length (trim_result 1 v)) /\
  (forall v, nth 1 (trim_result 1 v) 0%Z = nth 1 v 0%Z).
Proof.
  split.
  - intros [|a [|b v]] H; simpl in *; try lia. destruct (Z.eqb a 1); simpl; lia.
  - intros [|a [|b v]]; simpl; try reflexivity. destruct (Z.eqb a 1); reflexivity.
Qed.

Lemma ex_disjoint_footprints :
  disjoint_footprints (fun t x => x = t) (fun t x => x = t)
    (start [[Send 0 [1%Z]; Write 0 [2%Z]; Recv 0; Read 0; Close 0];
            [Send 1 [3%Z]; Recv 1; Write 1 [4%Z]; Read 1]]
           [(0, mkchan 1); (1, mkchan 1)]).
Proof.
  split; [|split; intros t t' x Hne [H1 H2]; lia].
  intros [|[|t]] i Hi; simpl in Hi.
  - repeat (destruct Hi as [<-|Hi]; [constructor; reflexivity|]). destruct Hi.
  - repeat (destruct Hi as [<-|Hi]; [constructor; reflexivity|]). destruct Hi.
  - destruct t; destruct Hi.
Qed.

(* the frame theorem at work on that instance, under one interleaving *)
Lemma ex_frame_run :
  let s := start [[Send 0 [1%Z]; Write 0 [2%Z]; Recv 0; Read 0; Close 0];
                  [Send 1 [3%Z]; Recv 1; Write 1 [4%Z]; Read 1]]
                 [(0, mkchan 1); (1, mkchan 1)] in
  log (getthread (run [0; 1; 1; 0; 1; 0; 0; 1; 0] s) 0) = [OVal [1%Z]; ORead [2%Z]] /\
  log (getthread (run [0; 1; 1; 0; 1; 0; 0; 1; 0] (alone 0 s)) 0) = [OVal [1%Z]; ORead [2%Z]].
Proof. vm_compute. split; reflexivity. Qed.

Lemma ex_accepts :
  accepts_trace [[1; 5]; [1; 3]]%Z 3
    [OReceived [1; 5]%Z; OReceived [1; 3]%Z; OClosedEv; OReturned [1; 3]%Z] = true /\
  accepts_trace [[1; 5]; [1; 3]]%Z 0
    [OReceived [1; 3]%Z; OReceived [1; 5]%Z; OClosedEv; OReturned [1; 3]%Z] = false /\
  accepts_trace [[1; 5]; [1; 3]]%Z 0
    [OReceived [1; 5]%Z; OReceived [1; 3]%Z; OClosedEv; OReturned [1; 5]%Z] = false /\
  accepts_trace [[1; 5]; [1; 3]]%Z 1 [OReceived [1; 5]%Z; OReceived [1; 3]%Z] = false.
Proof. vm_compute. repeat split; reflexivity. Qed.

(* ------------------------------------------------------------------ *)
(* 8. Programs without shared cells (Optimal, Enumerate, the forwarder) *)
(*    have no conflicting accesses at all                               *)

Definition no_cells (i : instr) : Prop := uses (fun _ => True) (fun _ => False) i.
Definition PC (s : sys) : Prop :=
  forall th, In th (threads s) -> forall i, In i (code th) -> no_cells i.
Definition nocell_ev (e : ev) : Prop := cell_access e = None.

Lemma in_upd_nth : forall A n (a : A) l x, In x (upd_nth n a l) -> x = a \/ In x l.
Proof.
  intros A n a l. revert n. induction l as [|y l IH]; intros n x H.
  - destruct n; destruct H.
  - destruct n; simpl in H.
    + destruct H as [<-|H]; [left; reflexivity|right; right; exact H].
    + destruct H as [<-|H]; [right; left; reflexivity|].
      destruct (IH n x H) as [->|H']; [left; reflexivity|right; right; exact H'].
Qed.

Lemma advance_no_cells : forall th, (forall i, In i (code th) -> no_cells i) ->
  forall i, In i (code (advance th)) -> no_cells i.
Proof.
  intros th H i Hi. unfold advance in Hi. simpl in Hi.
  destruct (code th) as [|x r]; [destruct Hi|]. apply H. right. exact Hi.
Qed.

Lemma deliver_no_cells : forall th o, (forall i, In i (code th) -> no_cells i) ->
  forall i, In i (code (deliver th o)) -> no_cells i.
Proof.
  intros th o H i Hi. unfold deliver in Hi.
  destruct (code th) as [|x r] eqn:Hc; [rewrite Hc in Hi; destruct Hi|].
  destruct x as [ch v|ch|ch body brk|ch|cell v|cell];
    try (rewrite Hc in Hi; apply H; exact Hi).
  - simpl in Hi. apply H. right. exact Hi.
  - destruct o as [v|]; simpl in Hi; [|apply H; right; exact Hi].
    apply in_app_or in Hi. destruct Hi as [Hi|Hi].
    + assert (Hr : no_cells (Range ch body brk)) by (apply H; left; reflexivity).
      inversion Hr as [| |ch0 body0 brk0 _ Hb| | |]; subst. eapply Hb. exact Hi.
    + destruct (brk v); [apply H; right; exact Hi|apply H; exact Hi].
Qed.

Lemma nth_error_getthread_in : forall s t th, nth_error (threads s) t = Some th -> In th (threads s).
Proof. intros s t th H. eapply nth_error_In; eauto. Qed.

Lemma getthread_in_or_empty : forall s t, In (getthread s t) (threads s) \/ getthread s t = Thread [] [].
Proof.
  intros s t. unfold getthread. destruct (nth_in_or_default t (threads s) (Thread [] [])) as [H|H]; auto.
Qed.

Lemma PC_getthread : forall s t, PC s -> forall i, In i (code (getthread s t)) -> no_cells i.
Proof.
  intros s t H i Hi. destruct (getthread_in_or_empty s t) as [Hin|He].
  - eapply H; eauto.
  - rewrite He in Hi. destruct Hi.
Qed.

Lemma Forall_snoc : forall A (P : A -> Prop) l e, Forall P l -> P e -> Forall P (l ++ [e]).
Proof. intros. apply Forall_app. split; [assumption|constructor; [assumption|constructor]]. Qed.

Lemma Forall_snoc2 : forall A (P : A -> Prop) l e1 e2, Forall P l -> P e1 -> P e2 -> Forall P (l ++ [e1; e2]).
Proof. intros. apply Forall_app. split; [assumption|repeat constructor; assumption]. Qed.

Lemma rendezvous_pure : forall s ts tr ch v, PC s -> Forall nocell_ev (trace s) ->
  PC (rendezvous s ts tr ch v) /\ Forall nocell_ev (trace (rendezvous s ts tr ch v)).
Proof.
  intros s ts tr ch v Hpc Htr. unfold rendezvous. simpl. split.
  - intros th Hin i Hi. apply in_upd_nth in Hin. destruct Hin as [->|Hin].
    + eapply deliver_no_cells; [|exact Hi]. apply PC_getthread. exact Hpc.
    + apply in_upd_nth in Hin. destruct Hin as [->|Hin].
      * eapply advance_no_cells; [|exact Hi]. apply PC_getthread. exact Hpc.
      * eapply Hpc; eauto.
  - apply Forall_snoc2; [exact Htr|reflexivity|reflexivity].
Qed.

Lemma recv_step_pure : forall s t th ch s', PC s -> Forall nocell_ev (trace s) ->
  nth_error (threads s) t = Some th ->
  recv_step s t th ch = Some s' -> PC s' /\ Forall nocell_ev (trace s').
Proof.
  intros s t th ch s' Hpc Htr Hth H. unfold recv_step in H.
  assert (Hthc : forall i, In i (code th) -> no_cells i).
  { intros i Hi. eapply Hpc; [eapply nth_error_getthread_in; eauto|exact Hi]. }
  destruct (queue (getc s ch)) as [|v q].
  - destruct (closed (getc s ch)).
    + injection H as <-. simpl. split.
      * intros th' Hin i Hi. apply in_upd_nth in Hin. destruct Hin as [->|Hin].
        -- eapply deliver_no_cells; eauto.
        -- eapply Hpc; eauto.
      * apply Forall_snoc; [exact Htr|reflexivity].
    + destruct (cap (getc s ch) =? 0); [|discriminate].
      destruct (find_from (wants_send ch) t 0 (threads s)) as [[ts v]|]; [|discriminate].
      injection H as <-. apply rendezvous_pure; assumption.
  - injection H as <-. simpl. split.
    + intros th' Hin i Hi. apply in_upd_nth in Hin. destruct Hin as [->|Hin].
      * eapply deliver_no_cells; eauto.
      * eapply Hpc; eauto.
    + apply Forall_snoc; [exact Htr|reflexivity].
Qed.

Lemma step_pure : forall s t s', PC s -> Forall nocell_ev (trace s) ->
  step s t = Some s' -> PC s' /\ Forall nocell_ev (trace s').
Proof.
  intros s t s' Hpc Htr H. unfold step in H.
  destruct (panic s); [discriminate|].
  destruct (nth_error (threads s) t) as [th|] eqn:Hth; [|discriminate].
  assert (Hthc : forall i, In i (code th) -> no_cells i).
  { intros i Hi. eapply Hpc; [eapply nth_error_getthread_in; eauto|exact Hi]. }
  assert (Hadv : forall th' i, In th' (upd_nth t (advance th) (threads s)) -> In i (code th') -> no_cells i).
  { intros th' i Hin Hi. apply in_upd_nth in Hin. destruct Hin as [->|Hin].
    - eapply advance_no_cells; eauto.
    - eapply Hpc; eauto. }
  destruct (code th) as [|x r] eqn:Hc; [discriminate|].
  destruct x as [ch v|ch|ch body brk|ch|cell v|cell].
  - destruct (closed (getc s ch)).
    + injection H as <-. unfold do_panic. simpl. split; [exact Hpc|].
      apply Forall_snoc; [exact Htr|reflexivity].
    + destruct (cap (getc s ch) =? 0).
      * destruct (find_from (wants_recv ch) t 0 (threads s)) as [[r0 u]|]; [|discriminate].
        injection H as <-. apply rendezvous_pure; assumption.
      * destruct (length (queue (getc s ch)) <? cap (getc s ch)); [|discriminate].
        injection H as <-. simpl. split.
        -- intros th' Hin i Hi. eapply Hadv; eauto.
        -- apply Forall_snoc; [exact Htr|reflexivity].
  - eapply recv_step_pure; eauto.
  - eapply recv_step_pure; eauto.
  - destruct (closed (getc s ch)).
    + injection H as <-. unfold do_panic. simpl. split; [exact Hpc|].
      apply Forall_snoc; [exact Htr|reflexivity].
    + injection H as <-. simpl. split.
      * intros th' Hin i Hi. eapply Hadv; eauto.
      * apply Forall_snoc; [exact Htr|reflexivity].
  - exfalso. assert (Hw : no_cells (Write cell v)) by (apply Hthc; left; reflexivity).
    inversion Hw; subst. assumption.
  - exfalso. assert (Hw : no_cells (Read cell)) by (apply Hthc; left; reflexivity).
    inversion Hw; subst. assumption.
Qed.

Lemma run_pure : forall sched s, PC s -> Forall nocell_ev (trace s) ->
  PC (run sched s) /\ Forall nocell_ev (trace (run sched s)).
Proof.
  induction sched as [|t r IH]; intros s Hpc Htr; simpl; [split; assumption|].
  destruct (step s t) as [s'|] eqn:E; [|apply IH; assumption].
  destruct (step_pure s t s' Hpc Htr E) as [H1 H2]. apply IH; assumption.
Qed.

Lemma race_free_no_cells : forall tr, Forall nocell_ev tr -> race_free tr.
Proof.
  intros tr H i j a b Hij Ha Hb Hc. exfalso.
  rewrite Forall_forall in H. pose proof (H a (nth_error_In _ _ Ha)) as Hna.
  unfold nocell_ev in Hna. unfold conflict in Hc. rewrite Hna in Hc. discriminate.
Qed.

Ltac pc_tac :=
  let th := fresh "th" in let Hin := fresh "Hin" in let i := fresh "i" in let Hi := fresh "Hi" in
  intros th Hin i Hi; simpl in Hin;
  repeat (destruct Hin as [<-|Hin]; [simpl in Hi|]); try contradiction.

Lemma producer_no_cells : forall ch results i, In i (producer ch results) -> no_cells i.
Proof.
  intros ch results i Hi. unfold producer in Hi. apply in_app_or in Hi.
  destruct Hi as [Hi|[<-|[]]].
  - apply in_map_iff in Hi. destruct Hi as [v [<- _]]. constructor. exact I.
  - constructor. exact I.
Qed.

Lemma collect_no_cells : forall ch, no_cells (collect ch).
Proof. intros ch. constructor; [exact I|]. intros v i []. Qed.

Lemma hb_streams : forall c trim results batches sched,
  race_free (trace (run sched (optimal_sys c results))) /\
  race_free (trace (run sched (enumerate_sys c batches))) /\
  race_free (trace (run sched (forwarder_sys c trim results))).
Proof.
  intros c trim results batches sched.
  assert (H1 : PC (optimal_sys c results)).
  { pc_tac.
    - eapply producer_no_cells; exact Hi.
    - destruct Hi as [<-|[]]. apply collect_no_cells. }
  assert (H3 : PC (forwarder_sys c trim results)).
  { pc_tac.
    - eapply producer_no_cells; exact Hi.
    - destruct Hi as [<-|[<-|[]]].
      + constructor; [exact I|]. intros v i0 [<-|[]]. constructor. exact I.
      + constructor. exact I.
    - destruct Hi as [<-|[]]. apply collect_no_cells. }
  split; [|split].
  - apply race_free_no_cells. apply run_pure; [exact H1|constructor].
  - rewrite enumerate_sys_optimal. apply race_free_no_cells. apply run_pure; [|constructor].
    pc_tac.
    + eapply producer_no_cells; exact Hi.
    + destruct Hi as [<-|[]]. apply collect_no_cells.
  - apply race_free_no_cells. apply run_pure; [exact H3|constructor].
Qed.
