(* Proofs about Model/Incr.v: adding constraints to a live solver (C09). *)
From Coq Require Import List ZArith Lia Bool NArith.
From GS Require Import Spec.Base Spec.PB Spec.Solver Model.Incr.
From GS Require Proofs.Enum.
Import ListNotations.
Open Scope Z_scope.

Definition lit_val_opp := Proofs.Enum.lit_val_opp.
Definition sat_problem_app := Proofs.Enum.sat_problem_app.
Definition sat_problem_snoc := Proofs.Enum.sat_problem_snoc.

(* ------------------------------------------------------------------ *)
(* Facts, units.                                                        *)

Lemma sat_unit_pbc : forall m l, sat_pbc m (unit_pbc l) = lit_val m l.
Proof.
  intros. unfold unit_pbc. rewrite sat_clause_pbc. unfold sat_clause. simpl.
  apply orb_false_r.
Qed.

Lemma sat_units : forall m ls, sat_problem m (units ls) = forallb (lit_val m) ls.
Proof.
  intros m ls. unfold units, sat_problem. induction ls as [|l ls IH]; [reflexivity|].
  cbn [map forallb]. rewrite IH, sat_unit_pbc. reflexivity.
Qed.

Lemma sat_state : forall m st,
  sat_problem m (state_problem st) =
  forallb (lit_val m) (i_facts st) && sat_problem m (i_db st).
Proof. intros. unfold state_problem. rewrite sat_problem_app, sat_units. reflexivity. Qed.

Lemma existsb_eqb_in : forall l ls, existsb (Z.eqb l) ls = true -> In l ls.
Proof.
  intros l ls H. apply existsb_exists in H. destruct H as [x [Hx E]].
  apply Z.eqb_eq in E. subst. exact Hx.
Qed.

Lemma forallb_in : forall m (ls : list lit) l,
  forallb (lit_val m) ls = true -> In l ls -> lit_val m l = true.
Proof. intros m ls l H. rewrite forallb_forall in H. apply H. Qed.

Lemma lit_status_true : forall m facts l,
  forallb (lit_val m) facts = true -> lit_status facts l = Some true -> lit_val m l = true.
Proof.
  intros m facts l F H. unfold lit_status in H.
  destruct (existsb (Z.eqb l) facts) eqn:E.
  - apply (forallb_in m facts l F). apply existsb_eqb_in. exact E.
  - destruct (existsb (Z.eqb (- l)) facts); discriminate.
Qed.

Lemma lit_status_false : forall m facts l,
  forallb (lit_val m) facts = true -> lit_status facts l = Some false -> lit_val m l = false.
Proof.
  intros m facts l F H. unfold lit_status in H.
  destruct (existsb (Z.eqb l) facts) eqn:E; [discriminate|].
  destruct (existsb (Z.eqb (- l)) facts) eqn:E2; [|discriminate].
  apply existsb_eqb_in in E2.
  assert (Hl : l <> 0).
  { intros ->. simpl in E2.
    assert (X : existsb (Z.eqb 0) facts = true).
    { apply existsb_exists. exists 0. split; [exact E2|reflexivity]. }
    rewrite X in E. discriminate. }
  pose proof (forallb_in m facts (- l) F E2) as V.
  rewrite (lit_val_opp m l Hl) in V. apply negb_true_iff in V. exact V.
Qed.

(* propagateUnits: a unit contradicting a fact gives Unsat, an already true
   unit is skipped, the others are appended. *)
Lemma propagate_units_spec : forall us facts,
  match propagate_units facts us with
  | Some f' =>
      (exists ext, f' = facts ++ ext /\ (forall u, In u ext -> In u us)) /\
      (forall m, forallb (lit_val m) f' =
                 forallb (lit_val m) facts && forallb (lit_val m) us)
  | None => forall m, forallb (lit_val m) facts && forallb (lit_val m) us = false
  end.
Proof.
  induction us as [|u r IH]; intros facts.
  - simpl. split.
    + exists []. rewrite app_nil_r. split; [reflexivity|intros u []].
    + intros m. rewrite andb_true_r. reflexivity.
  - cbn [propagate_units]. destruct (lit_status facts u) as [[|]|] eqn:St.
    + specialize (IH facts). destruct (propagate_units facts r) as [f'|].
      * destruct IH as [[ext [E1 E2]] IH]. split.
        -- exists ext. split; [exact E1|]. intros x Hx. right. apply E2. exact Hx.
        -- intros m. rewrite IH. cbn [forallb].
           destruct (forallb (lit_val m) facts) eqn:F; [|reflexivity].
           rewrite (lit_status_true m facts u F St). reflexivity.
      * intros m. cbn [forallb]. specialize (IH m).
        destruct (forallb (lit_val m) facts) eqn:F; [|reflexivity].
        rewrite (lit_status_true m facts u F St). exact IH.
    + intros m. cbn [forallb].
      destruct (forallb (lit_val m) facts) eqn:F; [|reflexivity].
      rewrite (lit_status_false m facts u F St). reflexivity.
    + specialize (IH (facts ++ [u])). destruct (propagate_units (facts ++ [u]) r) as [f'|].
      * destruct IH as [[ext [E1 E2]] IH]. split.
        -- exists (u :: ext). split.
           ++ rewrite E1, <- app_assoc. reflexivity.
           ++ intros x [<-|Hx]; [left; reflexivity|right; apply E2; exact Hx].
        -- intros m. rewrite IH, forallb_app. cbn [forallb].
           rewrite andb_true_r, andb_assoc. reflexivity.
      * intros m. specialize (IH m). rewrite forallb_app in IH. cbn [forallb] in *.
        rewrite andb_true_r, <- andb_assoc in IH. exact IH.
Qed.

(* ------------------------------------------------------------------ *)
(* Left-hand sides.                                                     *)

Fixpoint sumw (ts : list term) : Z :=
  match ts with [] => 0 | t :: r => fst t + sumw r end.

Lemma lhs_app : forall m a b, lhs m (a ++ b) = lhs m a + lhs m b.
Proof. intros m a b. induction a as [|t a IH]; simpl; [reflexivity|]. rewrite IH. lia. Qed.

Lemma sumw_app : forall a b, sumw (a ++ b) = sumw a + sumw b.
Proof. intros a b. induction a as [|t a IH]; simpl; [reflexivity|]. rewrite IH. lia. Qed.

Lemma swap_last_split : forall r, r <> [] ->
  exists R L, swap_last r = L :: R /\ r = R ++ [L].
Proof.
  intros r H. destruct r as [|a r']; [contradiction|].
  exists (removelast (a :: r')), (last (a :: r') (0, 0)). split; [reflexivity|].
  apply app_removelast_last. discriminate.
Qed.

Lemma swap_last_lhs : forall m r, lhs m (swap_last r) = lhs m r.
Proof.
  intros m r. destruct r as [|a r']; [reflexivity|].
  destruct (swap_last_split (a :: r')) as [R [L [E1 E2]]]; [discriminate|].
  rewrite E1, E2, lhs_app. simpl. lia.
Qed.

Lemma swap_last_sumw : forall r, sumw (swap_last r) = sumw r.
Proof.
  intros r. destruct r as [|a r']; [reflexivity|].
  destruct (swap_last_split (a :: r')) as [R [L [E1 E2]]]; [discriminate|].
  rewrite E1, E2, sumw_app. simpl. lia.
Qed.

Lemma swap_last_length : forall r, length (swap_last r) = length r.
Proof.
  intros r. destruct r as [|a r']; [reflexivity|].
  destruct (swap_last_split (a :: r')) as [R [L [E1 E2]]]; [discriminate|].
  rewrite E1, E2, app_length. simpl. lia.
Qed.

Lemma swap_last_Forall : forall (Q : term -> Prop) r, Forall Q r -> Forall Q (swap_last r).
Proof.
  intros Q r H. destruct r as [|a r']; [constructor|].
  destruct (swap_last_split (a :: r')) as [R [L [E1 E2]]]; [discriminate|].
  rewrite E1. rewrite E2 in H. apply Forall_app in H. destruct H as [H1 H2].
  inversion H2; subst. constructor; assumption.
Qed.

Lemma lhs_nonneg : forall m ts, Forall (fun t => 0 <= fst t) ts -> 0 <= lhs m ts.
Proof.
  intros m ts H. induction H as [|t ts Ht _ IH]; simpl; [lia|].
  unfold term_val. destruct (lit_val m (snd t)); lia.
Qed.

Lemma lhs_le_sumw : forall m ts, Forall (fun t => 0 <= fst t) ts -> lhs m ts <= sumw ts.
Proof.
  intros m ts H. induction H as [|t ts Ht _ IH]; simpl; [lia|].
  unfold term_val. destruct (lit_val m (snd t)); lia.
Qed.

Lemma lhs_le_sumw_minus : forall m ts t, Forall (fun t => 0 <= fst t) ts ->
  In t ts -> lit_val m (snd t) = false -> lhs m ts <= sumw ts - fst t.
Proof.
  intros m ts t H. induction H as [|a ts Ha Hts IH]; intros Hin V; [contradiction|].
  simpl. destruct Hin as [->|Hin].
  - unfold term_val. rewrite V. pose proof (lhs_le_sumw m ts Hts). lia.
  - specialize (IH Hin V). unfold term_val. destruct (lit_val m (snd a)); lia.
Qed.

Lemma lhs_all_true : forall m ts,
  forallb (lit_val m) (map snd ts) = true -> lhs m ts = sumw ts.
Proof.
  intros m ts. induction ts as [|t ts IH]; simpl; [reflexivity|].
  intros H. apply andb_true_iff in H. destruct H as [H1 H2].
  unfold term_val. rewrite H1, (IH H2). reflexivity.
Qed.

Lemma lhs_full_all_true : forall m ts, Forall (fun t => 0 < fst t) ts ->
  sumw ts <= lhs m ts -> forallb (lit_val m) (map snd ts) = true.
Proof.
  intros m ts P H. apply forallb_forall. intros l Hl. apply in_map_iff in Hl.
  destruct Hl as [t [<- Ht]]. destruct (lit_val m (snd t)) eqn:V; [reflexivity|].
  assert (N : Forall (fun t => 0 <= fst t) ts).
  { eapply Forall_impl; [|exact P]. simpl. intros; lia. }
  pose proof (lhs_le_sumw_minus m ts t N Ht V) as B.
  rewrite Forall_forall in P. specialize (P t Ht). lia.
Qed.

(* ------------------------------------------------------------------ *)
(* The simplification loop of AppendClause.                             *)

Lemma simp_loop_spec : forall fuel facts done rest mw xw cur,
  (length rest <= fuel)%nat ->
  exists kept minW maxW cur',
    simp_loop fuel facts done rest mw xw cur = Some (kept, minW, maxW, cur') /\
    (forall m, forallb (lit_val m) facts = true ->
       mw + lhs m done + lhs m rest = minW + lhs m kept) /\
    maxW - minW - sumw kept = xw - mw - sumw done /\
    (forall Q : term -> Prop, Forall Q done -> Forall Q rest -> Forall Q kept) /\
    (forall card, Forall (fun t => 0 <= fst t) rest ->
       (mw < card -> cur = card - mw) -> (minW < card -> cur' = card - minW)).
Proof.
  induction fuel as [|f IH]; intros facts done rest mw xw cur Hlen.
  - destruct rest as [|t r]; [|simpl in Hlen; lia].
    exists done, mw, xw, cur. simpl. split; [reflexivity|].
    split; [intros; lia|]. split; [lia|]. split; [auto|]. auto.
  - destruct rest as [|t r].
    + exists done, mw, xw, cur. simpl. split; [reflexivity|].
      split; [intros; lia|]. split; [lia|]. split; [auto|]. auto.
    + simpl in Hlen. cbn [simp_loop].
      destruct (lit_status facts (snd t)) as [[|]|] eqn:St.
      * destruct (IH facts done (swap_last r) (mw + fst t) (xw + fst t) (upd_card cur (fst t)))
          as [kept [minW [maxW [cur' [E [A [B [C D]]]]]]]].
        { rewrite swap_last_length. lia. }
        exists kept, minW, maxW, cur'. split; [exact E|]. split; [|split; [|split]].
        -- intros m F. specialize (A m F). rewrite swap_last_lhs in A.
           simpl. unfold term_val. rewrite (lit_status_true m facts (snd t) F St). lia.
        -- lia.
        -- intros Q H1 H2. inversion H2; subst. apply C; [exact H1|].
           apply swap_last_Forall. assumption.
        -- intros card H1 H2. inversion H1 as [|x y Ht Hr]; subst.
           apply D; [apply swap_last_Forall; exact Hr|].
           intros Hlt. unfold upd_card.
           assert (Hc : cur = card - mw) by (apply H2; lia).
           destruct ((0 <? fst t) && (cur - 1 <? fst t)) eqn:G; [|lia].
           apply andb_true_iff in G. destruct G as [_ G]. apply Z.ltb_lt in G. lia.
      * destruct (IH facts done (swap_last r) mw xw cur)
          as [kept [minW [maxW [cur' [E [A [B [C D]]]]]]]].
        { rewrite swap_last_length. lia. }
        exists kept, minW, maxW, cur'. split; [exact E|]. split; [|split; [|split]].
        -- intros m F. specialize (A m F). rewrite swap_last_lhs in A.
           simpl. unfold term_val. rewrite (lit_status_false m facts (snd t) F St). lia.
        -- lia.
        -- intros Q H1 H2. inversion H2; subst. apply C; [exact H1|].
           apply swap_last_Forall. assumption.
        -- intros card H1 H2. inversion H1 as [|x y Ht Hr]; subst.
           apply D; [apply swap_last_Forall; exact Hr|exact H2].
      * destruct (IH facts (done ++ [t]) r mw (xw + fst t) cur)
          as [kept [minW [maxW [cur' [E [A [B [C D]]]]]]]]; [lia|].
        exists kept, minW, maxW, cur'. split; [exact E|]. split; [|split; [|split]].
        -- intros m F. specialize (A m F). rewrite lhs_app in A. simpl in *. lia.
        -- rewrite sumw_app in B. simpl in B. lia.
        -- intros Q H1 H2. inversion H2; subst. apply C; [|assumption].
           apply Forall_app. split; [exact H1|]. constructor; [assumption|constructor].
        -- intros card H1 H2. inversion H1 as [|x y Ht Hr]; subst.
           apply D; [exact Hr|exact H2].
Qed.

(* What AppendClause knows after its loop. *)
Lemma simp_terms_spec : forall facts c,
  exists kept minW maxW cur,
    simp_loop (length (terms c)) facts [] (terms c) 0 0 (degree c) = Some (kept, minW, maxW, cur) /\
    (forall m, forallb (lit_val m) facts = true -> lhs m (terms c) = minW + lhs m kept) /\
    maxW = minW + sumw kept /\
    (forall Q : term -> Prop, Forall Q (terms c) -> Forall Q kept) /\
    (Forall (fun t => 0 <= fst t) (terms c) -> minW < degree c -> cur = degree c - minW).
Proof.
  intros facts c.
  destruct (simp_loop_spec (length (terms c)) facts [] (terms c) 0 0 (degree c) (le_n _))
    as [kept [minW [maxW [cur [E [A [B [C D]]]]]]]].
  exists kept, minW, maxW, cur. split; [exact E|]. split; [|split; [|split]].
  - intros m F. specialize (A m F). simpl in A. lia.
  - simpl in B. lia.
  - intros Q H. apply C; [constructor|exact H].
  - intros H1 H2. apply (D (degree c) H1); [intros; lia|exact H2].
Qed.

Lemma pbc_pos_nonneg : forall c, pbc_pos c -> pbc_nonneg c.
Proof.
  intros c H. unfold pbc_pos, pbc_nonneg in *. eapply Forall_impl; [|exact H].
  simpl. intros t [H1 H2]. split; [lia|exact H2].
Qed.

Lemma nonneg_weights : forall c, pbc_nonneg c -> Forall (fun t => 0 <= fst t) (terms c).
Proof. intros c H. eapply Forall_impl; [|exact H]. simpl. intros t [H1 _]. exact H1. Qed.

Lemma pos_weights : forall c, pbc_pos c -> Forall (fun t => 0 < fst t) (terms c).
Proof. intros c H. eapply Forall_impl; [|exact H]. simpl. intros t [H1 _]. exact H1. Qed.

(* ------------------------------------------------------------------ *)
(* AppendClause.                                                        *)

Lemma add_core_n : forall st c,
  i_n (add_core st c) = Nat.max (i_n st) (terms_nvars (terms c)).
Proof.
  intros st c. unfold add_core.
  destruct (simp_loop _ _ _ _ _ _ _) as [[[[kept minW] maxW] cur]|]; [|reflexivity].
  destruct (degree c <=? minW); [reflexivity|].
  destruct (maxW <? degree c); [reflexivity|].
  destruct (maxW =? degree c); [|reflexivity].
  destruct (propagate_units _ _); reflexivity.
Qed.

Lemma add_core_dead : forall st c, i_dead st = true -> i_dead (add_core st c) = true.
Proof.
  intros st c H. unfold add_core.
  destruct (simp_loop _ _ _ _ _ _ _) as [[[[kept minW] maxW] cur]|]; [|exact H].
  destruct (degree c <=? minW); [exact H|].
  destruct (maxW <? degree c); [reflexivity|].
  destruct (maxW =? degree c); [|exact H].
  destruct (propagate_units _ _); [exact H|reflexivity].
Qed.

(* Soundness: whatever the new state accepts was accepted before and
   satisfies the constraint.  Needs only non-negative weights. *)
Lemma add_core_sound : forall st c m, pbc_nonneg c ->
  i_dead (add_core st c) = false ->
  sat_problem m (state_problem (add_core st c)) = true ->
  sat_problem m (state_problem st) = true /\ sat_pbc m c = true.
Proof.
  intros st c m Hnn. apply nonneg_weights in Hnn.
  destruct (simp_terms_spec (i_facts st) c) as [kept [minW [maxW [cur [E [A [B [C D]]]]]]]].
  unfold add_core. rewrite E.
  pose proof (C _ Hnn) as Hk.
  destruct (degree c <=? minW) eqn:G1.
  - intros _ S. split; [exact S|]. rewrite sat_state in S. simpl in S.
    apply andb_true_iff in S. destruct S as [F _].
    apply Z.leb_le in G1. unfold sat_pbc. apply Z.leb_le.
    rewrite (A m F). pose proof (lhs_nonneg m kept Hk). lia.
  - destruct (maxW <? degree c) eqn:G2; [simpl; discriminate|].
    apply Z.leb_gt in G1. apply Z.ltb_ge in G2.
    destruct (maxW =? degree c) eqn:G3.
    + apply Z.eqb_eq in G3.
      pose proof (propagate_units_spec (map snd kept) (i_facts st)) as PU.
      destruct (propagate_units (i_facts st) (map snd kept)) as [f'|]; [|simpl; discriminate].
      destruct PU as [_ PU]. intros _ S. rewrite sat_state in S |- *. simpl in S |- *.
      rewrite PU in S. apply andb_true_iff in S. destruct S as [S Sdb].
      apply andb_true_iff in S. destruct S as [F K]. rewrite F, Sdb. split; [reflexivity|].
      unfold sat_pbc. apply Z.leb_le. rewrite (A m F), (lhs_all_true m kept K). lia.
    + intros _ S. rewrite sat_state in S |- *. simpl in S |- *.
      apply andb_true_iff in S. destruct S as [F S]. rewrite sat_problem_snoc in S.
      apply andb_true_iff in S. destruct S as [Sdb Sc]. rewrite F, Sdb.
      split; [reflexivity|]. unfold sat_pbc in *. simpl in Sc. apply Z.leb_le in Sc.
      apply Z.leb_le. rewrite (A m F). rewrite (D Hnn G1) in Sc. lia.
Qed.

(* Completeness: nothing that satisfies the constraint is lost.  Needs
   positive weights (the Unit case forces every remaining literal). *)
Lemma add_core_complete : forall st c m, pbc_pos c ->
  i_dead st = false ->
  sat_problem m (state_problem st) = true -> sat_pbc m c = true ->
  i_dead (add_core st c) = false /\
  sat_problem m (state_problem (add_core st c)) = true.
Proof.
  intros st c m Hpos Hd S Sc. pose proof (pos_weights c Hpos) as Hp.
  apply pbc_pos_nonneg, nonneg_weights in Hpos.
  destruct (simp_terms_spec (i_facts st) c) as [kept [minW [maxW [cur [E [A [B [C D]]]]]]]].
  unfold add_core. rewrite E.
  pose proof (C _ Hpos) as Hk. pose proof (C _ Hp) as Hkp.
  assert (F : forallb (lit_val m) (i_facts st) = true).
  { rewrite sat_state in S. apply andb_true_iff in S. apply S. }
  unfold sat_pbc in Sc. apply Z.leb_le in Sc. rewrite (A m F) in Sc.
  pose proof (lhs_le_sumw m kept Hk) as Hle.
  destruct (degree c <=? minW) eqn:G1; [split; assumption|].
  apply Z.leb_gt in G1.
  destruct (maxW <? degree c) eqn:G2; [apply Z.ltb_lt in G2; lia|].
  destruct (maxW =? degree c) eqn:G3.
  - apply Z.eqb_eq in G3.
    assert (K : forallb (lit_val m) (map snd kept) = true).
    { apply lhs_full_all_true; [exact Hkp|lia]. }
    pose proof (propagate_units_spec (map snd kept) (i_facts st)) as PU.
    destruct (propagate_units (i_facts st) (map snd kept)) as [f'|].
    + destruct PU as [_ PU]. simpl. split; [exact Hd|].
      rewrite sat_state in S |- *. simpl. rewrite PU, F, K. simpl.
      apply andb_true_iff in S. apply S.
    + specialize (PU m). rewrite F, K in PU. discriminate.
  - simpl. split; [exact Hd|]. rewrite sat_state in S |- *. simpl.
    apply andb_true_iff in S. destruct S as [_ Sdb].
    rewrite F, sat_problem_snoc, Sdb. simpl. unfold sat_pbc. simpl.
    apply Z.leb_le. rewrite (D Hpos G1). lia.
Qed.

Theorem add_core_equiv : forall st c m, pbc_pos c ->
  (state_models (add_core st c) m <-> state_models st m /\ sat_pbc m c = true).
Proof.
  intros st c m Hpos. unfold state_models. split.
  - intros [Hd S]. destruct (i_dead st) eqn:D0.
    + rewrite (add_core_dead st c D0) in Hd. discriminate.
    + destruct (add_core_sound st c m (pbc_pos_nonneg c Hpos) Hd S) as [S0 Sc]. auto.
  - intros [[Hd S] Sc]. apply add_core_complete; assumption.
Qed.

Theorem add_core_sound_models : forall st c m, pbc_nonneg c ->
  state_models (add_core st c) m -> state_models st m /\ sat_pbc m c = true.
Proof.
  intros st c m Hnn [Hd S]. unfold state_models. destruct (i_dead st) eqn:D0.
  - rewrite (add_core_dead st c D0) in Hd. discriminate.
  - destruct (add_core_sound st c m Hnn Hd S) as [S0 Sc]. auto.
Qed.

(* With a zero weight the equivalence fails: x1 + 0 x2 >= 1 forces x2. *)
Theorem add_core_equiv_refuted : exists st c m,
  pbc_nonneg c /\ state_models st m /\ sat_pbc m c = true /\
  ~ state_models (add_core st c) m.
Proof.
  exists (IState 2 [] [] false), (PBC [(1, 1); (0, 2)] 1), [true; false].
  split; [|split; [|split]].
  - repeat constructor; simpl; lia.
  - split; reflexivity.
  - reflexivity.
  - intros [_ H]. vm_compute in H. discriminate.
Qed.

(* ------------------------------------------------------------------ *)
(* Variables that are not declared do not matter.                       *)

Lemma nth_firstn_lt : forall (A : Type) (l : list A) n i d, (i < n)%nat ->
  nth i (firstn n l) d = nth i l d.
Proof.
  intros A l. induction l as [|a l IH]; intros n i d H.
  - rewrite firstn_nil. reflexivity.
  - destruct n as [|n]; [lia|]. destruct i as [|i]; simpl; [reflexivity|].
    apply IH. lia.
Qed.

Lemma lit_val_firstn : forall m n l, l <> 0 -> (lit_nat l <= n)%nat ->
  lit_val (firstn n m) l = lit_val m l.
Proof.
  intros m n l H0 Hn. unfold lit_nat in Hn. unfold lit_val, var_val.
  destruct (0 <? l) eqn:E.
  - apply Z.ltb_lt in E. apply nth_firstn_lt. lia.
  - apply Z.ltb_ge in E. f_equal. apply nth_firstn_lt. lia.
Qed.

Lemma lhs_firstn : forall m n ts, lits_ok n ts -> lhs (firstn n m) ts = lhs m ts.
Proof.
  intros m n ts H. induction H as [|t ts [H0 Hn] _ IH]; [reflexivity|].
  cbn [lhs]. unfold term_val. pose proof (lit_val_firstn m n (snd t) H0 Hn) as V.
  unfold term, lit in *. rewrite V, IH. reflexivity.
Qed.

Lemma sat_firstn : forall m n P, problem_ok n P ->
  sat_problem (firstn n m) P = sat_problem m P.
Proof.
  intros m n P H. unfold sat_problem. induction H as [|c P Hc _ IH]; simpl; [reflexivity|].
  rewrite IH. unfold sat_pbc. rewrite (lhs_firstn m n _ Hc). reflexivity.
Qed.

(* no model with n variables => no model with more *)
Lemma unsat_grow : forall n n' P, problem_ok n P -> (n <= n')%nat ->
  (forall m, length m = n -> sat_problem m P = false) ->
  forall m, length m = n' -> sat_problem m P = false.
Proof.
  intros n n' P Hok Hle H m L. rewrite <- (sat_firstn m n P Hok). apply H.
  rewrite firstn_length. lia.
Qed.

Lemma lits_ok_mono : forall n n' ts, (n <= n')%nat -> lits_ok n ts -> lits_ok n' ts.
Proof.
  intros n n' ts Hle H. unfold lits_ok in *. eapply Forall_impl; [|exact H].
  simpl. intros t [H1 H2]. split; [exact H1|lia].
Qed.

Lemma problem_ok_mono : forall n n' P, (n <= n')%nat -> problem_ok n P -> problem_ok n' P.
Proof.
  intros n n' P Hle H. unfold problem_ok in *. eapply Forall_impl; [|exact H].
  simpl. intros c. apply lits_ok_mono. exact Hle.
Qed.

Lemma terms_nvars_ok : forall ts, Forall (fun t => snd t <> 0) ts -> lits_ok (terms_nvars ts) ts.
Proof.
  intros ts H. induction H as [|t ts Ht _ IH]; [constructor|].
  unfold terms_nvars. cbn [fold_right]. fold (terms_nvars ts). constructor.
  - split; [exact Ht|apply Nat.le_max_l].
  - eapply lits_ok_mono; [|exact IH]. apply Nat.le_max_r.
Qed.

Lemma nonneg_nonzero : forall c, pbc_nonneg c -> Forall (fun t => snd t <> 0) (terms c).
Proof. intros c H. eapply Forall_impl; [|exact H]. simpl. intros t [_ H2]. exact H2. Qed.

Lemma problem_ok_snoc : forall n P c, problem_ok n P -> pbc_nonneg c ->
  problem_ok (Nat.max n (terms_nvars (terms c))) (P ++ [c]).
Proof.
  intros n P c H Hc. unfold problem_ok. apply Forall_app. split.
  - apply (problem_ok_mono n); [lia|exact H].
  - constructor; [|constructor]. eapply lits_ok_mono; [|apply terms_nvars_ok, nonneg_nonzero, Hc]. lia.
Qed.

(* ------------------------------------------------------------------ *)
(* The invariants.                                                      *)

(* soundness of the live solver w.r.t. the conjunction P over n variables *)
Definition InvS (st : istate) (n : nat) (P : problem) : Prop :=
  i_n st = n /\
  (i_dead st = false -> forall m, sat_problem m (state_problem st) = true -> sat_problem m P = true).

(* completeness *)
Definition InvC (st : istate) (n : nat) (P : problem) : Prop :=
  (i_dead st = false -> forall m, sat_problem m P = true -> sat_problem m (state_problem st) = true) /\
  (i_dead st = true -> forall m, length m = n -> sat_problem m P = false).

Lemma unit_of_sat : forall m c l, unit_of c = Some l -> sat_pbc m c = lit_val m l.
Proof.
  intros m c l H. unfold unit_of in H. unfold sat_pbc.
  destruct (terms c) as [|[w l'] [|t r]]; try discriminate.
  destruct ((0 <? degree c) && (degree c <=? w)) eqn:G; [|discriminate].
  injection H as ->. apply andb_true_iff in G. destruct G as [G1 G2].
  apply Z.ltb_lt in G1. apply Z.leb_le in G2. simpl. unfold term_val. simpl.
  destruct (lit_val m l).
  - apply Z.leb_le. lia.
  - apply Z.leb_gt. lia.
Qed.

Lemma split_units_sat : forall P m,
  sat_problem m P =
  forallb (lit_val m) (fst (split_units P)) && sat_problem m (snd (split_units P)).
Proof.
  intros P m. induction P as [|c P IH]; [reflexivity|].
  cbn [split_units]. destruct (split_units P) as [us db]. simpl in IH.
  unfold sat_problem in *. cbn [forallb]. rewrite IH.
  destruct (unit_of c) as [l|] eqn:U; simpl.
  - rewrite (unit_of_sat m c l U). rewrite andb_assoc. reflexivity.
  - rewrite !andb_assoc. f_equal. apply andb_comm.
Qed.

Section Machine.

Variable solve : solver.
Variable infer : nat -> list lit -> problem -> option (list lit).
Hypothesis solve_good : solver_ok solve.
Hypothesis infer_good : infer_ok infer.

Lemma settle_n : forall st, i_n (settle infer st) = i_n st.
Proof.
  intros st. unfold settle. destruct (i_dead st); [reflexivity|].
  destruct (infer _ _ _); reflexivity.
Qed.

Lemma settle_of_dead : forall st, i_dead st = true -> settle infer st = st.
Proof. intros st H. unfold settle. rewrite H. reflexivity. Qed.

Lemma settle_sat : forall st, i_dead st = false ->
  if i_dead (settle infer st)
  then forall m, sat_problem m (state_problem st) = false
  else forall m, sat_problem m (state_problem (settle infer st)) = sat_problem m (state_problem st).
Proof.
  intros st H. unfold settle. rewrite H.
  pose proof (infer_good (i_n st) (i_facts st) (i_db st)) as G.
  destruct (infer (i_n st) (i_facts st) (i_db st)) as [ls|]; simpl.
  - intros m. specialize (G m).
    change (units (i_facts st) ++ i_db st) with (state_problem st) in G.
    match goal with |- sat_problem m (state_problem ?s1) = _ =>
      assert (X : sat_problem m (state_problem s1) =
                  forallb (lit_val m) ls && sat_problem m (state_problem st)) end.
    { rewrite !sat_state. simpl. rewrite forallb_app.
      destruct (forallb (lit_val m) (i_facts st)), (forallb (lit_val m) ls),
               (sat_problem m (i_db st)); reflexivity. }
    rewrite X. destruct (sat_problem m (state_problem st)) eqn:E.
    + rewrite (G eq_refl). reflexivity.
    + apply andb_false_r.
  - exact G.
Qed.

Lemma settle_InvS : forall st n P, InvS st n P -> InvS (settle infer st) n P.
Proof.
  intros st n P [Hn HS]. destruct (i_dead st) eqn:D.
  - rewrite (settle_of_dead st D). split; [exact Hn|]. intros X. congruence.
  - split; [rewrite settle_n; exact Hn|]. intros D' m S.
    pose proof (settle_sat st D) as G. rewrite D' in G. rewrite G in S. apply HS; auto.
Qed.

Lemma settle_InvC : forall st n P, InvC st n P -> InvC (settle infer st) n P.
Proof.
  intros st n P [C1 C2]. destruct (i_dead st) eqn:D.
  - rewrite (settle_of_dead st D). split; [intros X; congruence|]. intros _. apply C2. reflexivity.
  - pose proof (settle_sat st D) as G. split.
    + intros D' m S. rewrite D' in G. rewrite G. apply C1; auto.
    + intros D' m L. rewrite D' in G. destruct (sat_problem m P) eqn:S; [|reflexivity].
      specialize (G m). rewrite (C1 eq_refl m S) in G. discriminate.
Qed.

Lemma add_InvS : forall st n P c, InvS st n P -> pbc_nonneg c ->
  InvS (add_constraint infer st c) (Nat.max n (terms_nvars (terms c))) (P ++ [c]).
Proof.
  intros st n P c [Hn HS] Hc. unfold add_constraint. apply settle_InvS.
  split; [rewrite add_core_n, Hn; reflexivity|].
  intros D m S. destruct (i_dead st) eqn:D0.
  - rewrite (add_core_dead st c D0) in D. discriminate.
  - destruct (add_core_sound st c m Hc D S) as [S0 Sc].
    rewrite sat_problem_snoc, (HS eq_refl m S0), Sc. reflexivity.
Qed.

Lemma add_InvC : forall st n P c, InvC st n P -> problem_ok n P -> pbc_pos c ->
  InvC (add_constraint infer st c) (Nat.max n (terms_nvars (terms c))) (P ++ [c]).
Proof.
  intros st n P c [C1 C2] Hok Hc. unfold add_constraint. apply settle_InvC.
  destruct (i_dead st) eqn:D0.
  - split; [rewrite (add_core_dead st c D0); intros X; discriminate|].
    intros _ m L. rewrite sat_problem_snoc.
    rewrite (unsat_grow n _ P Hok (Nat.le_max_l _ _) (C2 eq_refl) m L). reflexivity.
  - split.
    + intros D m S. rewrite sat_problem_snoc in S. apply andb_true_iff in S.
      destruct S as [S Sc]. apply (add_core_complete st c m Hc D0 (C1 eq_refl m S) Sc).
    + intros D m L. destruct (sat_problem m (P ++ [c])) eqn:S; [|reflexivity].
      rewrite sat_problem_snoc in S. apply andb_true_iff in S. destruct S as [S Sc].
      destruct (add_core_complete st c m Hc D0 (C1 eq_refl m S) Sc) as [X _]. congruence.
Qed.

Lemma solve_InvS : forall st n P, InvS st n P ->
  InvS (snd (solve_step solve infer st)) n P /\
  (forall m, fst (solve_step solve infer st) = Some m -> length m = n /\ sat_problem m P = true).
Proof.
  intros st n P HS0. pose proof HS0 as [Hn HS]. unfold solve_step. destruct (i_dead st) eqn:D.
  - simpl. split; [exact HS0|]. intros m X. discriminate.
  - pose proof (solve_good (i_n st) (state_problem st)) as G.
    destruct (solve (i_n st) (state_problem st)) as [m0|]; simpl.
    + split; [apply settle_InvS; exact HS0|]. intros m X. injection X as <-.
      destruct G as [L S]. split; [congruence|apply HS; auto].
    + split; [split; [exact Hn|simpl; intros X; discriminate]|]. intros m X. discriminate.
Qed.

Lemma solve_InvC : forall st n P, i_n st = n -> InvC st n P ->
  InvC (snd (solve_step solve infer st)) n P /\
  (fst (solve_step solve infer st) = None -> forall m, length m = n -> sat_problem m P = false).
Proof.
  intros st n P Hn HC0. pose proof HC0 as [C1 C2]. unfold solve_step. destruct (i_dead st) eqn:D.
  - simpl. split; [exact HC0|].
    intros _. apply C2. reflexivity.
  - pose proof (solve_good (i_n st) (state_problem st)) as G.
    destruct (solve (i_n st) (state_problem st)) as [m0|]; simpl.
    + split; [apply settle_InvC; exact HC0|]. intros X. discriminate.
    + assert (U : forall m, length m = n -> sat_problem m P = false).
      { intros m L. destruct (sat_problem m P) eqn:S; [|reflexivity].
        rewrite <- Hn in L. specialize (C1 eq_refl m S). rewrite (G m L) in C1. discriminate. }
      split; [|intros _; exact U]. split; [simpl; intros X; discriminate|intros _; exact U].
Qed.

Lemma init_Inv : forall n base, InvS (init infer n base) n base /\ InvC (init infer n base) n base.
Proof.
  intros n base. unfold init.
  pose proof (split_units_sat base) as SU. destruct (split_units base) as [us db]. simpl in SU.
  pose proof (propagate_units_spec us []) as PU.
  destruct (propagate_units [] us) as [f|].
  - destruct PU as [_ PU]. simpl in PU.
    assert (E : forall m, sat_problem m (state_problem (IState n f db false)) = sat_problem m base).
    { intros m. rewrite sat_state, SU, PU. reflexivity. }
    split; [apply settle_InvS|apply settle_InvC].
    + split; [reflexivity|]. intros _ m S. rewrite <- E. exact S.
    + split; [intros _ m S; rewrite E; exact S|]. simpl. intros X. discriminate.
  - simpl in PU. split; [apply settle_InvS|apply settle_InvC].
    + split; [reflexivity|]. simpl. intros X. discriminate.
    + split; [simpl; intros X; discriminate|]. intros _ m _. rewrite SU, PU. reflexivity.
Qed.

(* ------------------------------------------------------------------ *)
(* Histories.                                                           *)

Lemma run_app : forall ops1 ops2 st,
  run solve infer st (ops1 ++ ops2) =
  run solve infer st ops1 ++ run solve infer (exec solve infer st ops1) ops2.
Proof.
  induction ops1 as [|o ops1 IH]; intros ops2 st; [reflexivity|].
  destruct o as [|c]; cbn [app run exec].
  - destruct (solve_step solve infer st) as [out st'] eqn:E. simpl. rewrite IH. reflexivity.
  - apply IH.
Qed.

Lemma pos_ops_nonneg : forall ops, ops_ok pbc_pos ops -> ops_ok pbc_nonneg ops.
Proof.
  intros ops H. unfold ops_ok in *. eapply Forall_impl; [|exact H].
  intros [|c]; simpl; [auto|apply pbc_pos_nonneg].
Qed.

(* Every Sat answer comes with a model of the conjunction so far. *)
Lemma run_models : forall ops st n P, InvS st n P -> ops_ok pbc_nonneg ops ->
  Forall2 (fun out q => forall m, out = Some m -> length m = fst q /\ sat_problem m (snd q) = true)
          (run solve infer st ops) (spec_run n P ops).
Proof.
  induction ops as [|o ops IH]; intros st n P HS Hops; [constructor|].
  inversion Hops as [|x y Ho Hr]; subst. destruct o as [|c]; cbn [run spec_run].
  - destruct (solve_InvS st n P HS) as [HS' Hout].
    destruct (solve_step solve infer st) as [out st'] eqn:E. simpl in *.
    constructor; [exact Hout|]. apply IH; assumption.
  - apply IH; [|exact Hr]. apply add_InvS; assumption.
Qed.

Lemma run_history : forall ops st n P, InvS st n P -> InvC st n P -> problem_ok n P ->
  ops_ok pbc_pos ops ->
  Forall2 answer_ok (run solve infer st ops) (spec_run n P ops).
Proof.
  induction ops as [|o ops IH]; intros st n P HS HC Hok Hops; [constructor|].
  inversion Hops as [|x y Ho Hr]; subst. destruct o as [|c]; cbn [run spec_run].
  - destruct (solve_InvS st n P HS) as [HS' Hout].
    destruct (solve_InvC st n P (proj1 HS) HC) as [HC' Hnone].
    destruct (solve_step solve infer st) as [out st'] eqn:E. simpl in *.
    constructor; [|apply IH; assumption].
    unfold answer_ok. destruct out as [m|]; simpl; [apply Hout; reflexivity|apply Hnone; reflexivity].
  - simpl in Ho. apply IH; [| | |exact Hr].
    + apply add_InvS; [assumption|apply pbc_pos_nonneg; exact Ho].
    + apply add_InvC; assumption.
    + apply problem_ok_snoc; [assumption|apply pbc_pos_nonneg; exact Ho].
Qed.

Lemma exec_InvS : forall ops st n P, InvS st n P -> problem_ok n P -> ops_ok pbc_nonneg ops ->
  InvS (exec solve infer st ops) (spec_n n ops) (P ++ added ops) /\
  problem_ok (spec_n n ops) (P ++ added ops).
Proof.
  induction ops as [|o ops IH]; intros st n P HS Hok Hops.
  - simpl. rewrite app_nil_r. auto.
  - inversion Hops as [|x y Ho Hr]; subst. destruct o as [|c]; cbn [exec spec_n added].
    + apply IH; [|assumption|assumption]. apply (solve_InvS st n P HS).
    + simpl in Ho. replace (P ++ c :: added ops) with ((P ++ [c]) ++ added ops)
        by (rewrite <- app_assoc; reflexivity).
      apply IH; [apply add_InvS; assumption|apply problem_ok_snoc; assumption|assumption].
Qed.

(* Once the conjunction has no model, every later answer is Unsat. *)
Lemma run_sticky : forall ops st n P, InvS st n P -> problem_ok n P -> ops_ok pbc_nonneg ops ->
  (forall m, length m = n -> sat_problem m P = false) ->
  Forall (fun out => out = None) (run solve infer st ops).
Proof.
  induction ops as [|o ops IH]; intros st n P HS Hok Hops U; [constructor|].
  inversion Hops as [|x y Ho Hr]; subst. destruct o as [|c]; cbn [run].
  - destruct (solve_InvS st n P HS) as [HS' Hout].
    destruct (solve_step solve infer st) as [out st'] eqn:E. simpl in *.
    constructor; [|apply (IH st' n P); assumption].
    destruct out as [m|]; [|reflexivity]. destruct (Hout m eq_refl) as [L S].
    rewrite (U m L) in S. discriminate.
  - simpl in Ho. apply (IH _ (Nat.max n (terms_nvars (terms c))) (P ++ [c])).
    + apply add_InvS; assumption.
    + apply problem_ok_snoc; assumption.
    + exact Hr.
    + intros m L. rewrite sat_problem_snoc.
      rewrite (unsat_grow n _ P Hok (Nat.le_max_l _ _) U m L). reflexivity.
Qed.

Theorem history_partial : forall n base ops, problem_ok n base -> ops_ok pbc_pos ops ->
  Forall2 answer_ok (run solve infer (init infer n base) ops) (spec_run n base ops).
Proof.
  intros n base ops Hok Hops. destruct (init_Inv n base) as [HS HC].
  apply run_history; assumption.
Qed.

Theorem models_sound : forall n base ops, ops_ok pbc_nonneg ops ->
  Forall2 (fun out q => forall m, out = Some m -> length m = fst q /\ sat_problem m (snd q) = true)
          (run solve infer (init infer n base) ops) (spec_run n base ops).
Proof.
  intros n base ops Hops. destruct (init_Inv n base) as [HS _]. apply run_models; assumption.
Qed.

Theorem sticky : forall n base ops1 ops2, problem_ok n base -> ops_ok pbc_nonneg (ops1 ++ ops2) ->
  (forall m, length m = spec_n n ops1 -> sat_problem m (base ++ added ops1) = false) ->
  Forall (fun out => out = None)
         (run solve infer (exec solve infer (init infer n base) ops1) ops2).
Proof.
  intros n base ops1 ops2 Hok Hops U. apply Forall_app in Hops. destruct Hops as [H1 H2].
  destruct (init_Inv n base) as [HS _].
  destruct (exec_InvS ops1 _ n base HS Hok H1) as [HS' Hok'].
  eapply run_sticky; eassumption.
Qed.

Lemma settle_models : forall st m,
  state_models (settle infer st) m <-> state_models st m.
Proof.
  intros st m. unfold state_models. destruct (i_dead st) eqn:D.
  - rewrite (settle_of_dead st D), D. reflexivity.
  - pose proof (settle_sat st D) as G. destruct (i_dead (settle infer st)).
    + rewrite (G m). split; intros [X Y]; discriminate.
    + rewrite (G m). reflexivity.
Qed.

(* AppendClause: the models of the new state are the models of the old
   state that satisfy the constraint. *)
Theorem add_constraint_equiv : forall st c m, pbc_pos c ->
  (state_models (add_constraint infer st c) m <-> state_models st m /\ sat_pbc m c = true).
Proof.
  intros st c m H. unfold add_constraint. rewrite settle_models. apply add_core_equiv. exact H.
Qed.

Theorem add_constraint_sound : forall st c m, pbc_nonneg c ->
  state_models (add_constraint infer st c) m -> state_models st m /\ sat_pbc m c = true.
Proof.
  intros st c m H. unfold add_constraint. rewrite settle_models.
  apply add_core_sound_models. exact H.
Qed.

End Machine.

(* Answering like a fresh solver on each conjunction. *)
Lemma answer_ok_verdict : forall solve', solver_ok solve' -> forall out q,
  answer_ok out q -> is_some out = is_some (solve' (fst q) (snd q)).
Proof.
  intros solve' H out [n P] A. simpl. specialize (H n P). unfold answer_ok in A. simpl in A.
  destruct out as [m|]; destruct (solve' n P) as [m'|]; simpl; try reflexivity.
  - destruct A as [L S]. rewrite (H m L) in S. discriminate.
  - destruct H as [L S]. rewrite (A m' L) in S. discriminate.
Qed.

Theorem fresh_partial : forall solve infer solve',
  solver_ok solve -> infer_ok infer -> solver_ok solve' ->
  forall n base ops, problem_ok n base -> ops_ok pbc_pos ops ->
  map is_some (run solve infer (init infer n base) ops) = fresh_verdicts solve' n base ops.
Proof.
  intros solve infer solve' H1 H2 H3 n base ops Hok Hops.
  pose proof (history_partial solve infer H1 H2 n base ops Hok Hops) as F.
  unfold fresh_verdicts. induction F as [|out q l l' A _ IH]; [reflexivity|].
  simpl. rewrite IH, (answer_ok_verdict solve' H3 out q A). reflexivity.
Qed.

(* A constraint with a zero weight (allowed by NewPBClause) breaks it:
   after  x1 + 0 x2 >= 1  and  -x2  the live solver answers Unsat. *)
Theorem history_refuted : exists n base ops,
  problem_ok n base /\ ops_ok pbc_nonneg ops /\
  map is_some (run ref_solve infer_none (init infer_none n base) ops)
  <> fresh_verdicts ref_solve n base ops.
Proof.
  exists 2%nat, [], [OAdd (PBC [(1, 1); (0, 2)] 1); OAdd (clause_pbc [-2]); OSolve].
  split; [constructor|]. split.
  - repeat constructor; simpl; lia.
  - intros H. vm_compute in H. discriminate.
Qed.

(* ------------------------------------------------------------------ *)
(* Instances of [infer].                                                *)

Lemma infer_none_ok : infer_ok infer_none.
Proof. intros n F D. simpl. reflexivity. Qed.

Lemma nonneg_terms_Forall : forall ts, nonneg_terms ts = true -> Forall (fun t => 0 <= fst t) ts.
Proof.
  intros ts H. unfold nonneg_terms in H. rewrite forallb_forall in H.
  apply Forall_forall. intros t Ht. apply Z.leb_le. apply H. exact Ht.
Qed.

Lemma forced_of_sound : forall facts c m,
  forallb (lit_val m) facts = true -> sat_pbc m c = true ->
  match forced_of facts c with
  | Some ls => forallb (lit_val m) ls = true
  | None => False
  end.
Proof.
  intros facts c m F S. unfold forced_of.
  destruct (nonneg_terms (terms c)) eqn:N; simpl; [|reflexivity].
  apply nonneg_terms_Forall in N.
  destruct (simp_terms_spec facts c) as [kept [minW [maxW [cur [E [A [B [C D]]]]]]]].
  rewrite E. pose proof (C _ N) as Hk. unfold sat_pbc in S. apply Z.leb_le in S.
  rewrite (A m F) in S. pose proof (lhs_le_sumw m kept Hk) as Hle.
  destruct (maxW <? degree c) eqn:G; [apply Z.ltb_lt in G; lia|].
  apply forallb_forall. intros l Hl. apply in_map_iff in Hl. destruct Hl as [t [<- Ht]].
  apply filter_In in Ht. destruct Ht as [Ht Hw]. apply Z.ltb_lt in Hw.
  destruct (lit_val m (snd t)) eqn:V; [reflexivity|].
  pose proof (lhs_le_sumw_minus m kept t Hk Ht V). lia.
Qed.

Lemma up_pass_sound : forall db facts m,
  forallb (lit_val m) facts = true -> sat_problem m db = true ->
  match up_pass facts db with
  | Some f' => forallb (lit_val m) f' = true
  | None => False
  end.
Proof.
  induction db as [|c db IH]; intros facts m F S; [exact F|].
  unfold sat_problem in S. cbn [forallb] in S. apply andb_true_iff in S. destruct S as [Sc S].
  cbn [up_pass]. pose proof (forced_of_sound facts c m F Sc) as G.
  destruct (forced_of facts c) as [ls|]; [|exact G].
  pose proof (propagate_units_spec ls facts) as PU.
  destruct (propagate_units facts ls) as [f'|].
  - destruct PU as [_ PU]. apply IH; [|exact S]. rewrite PU, F, G. reflexivity.
  - specialize (PU m). rewrite F, G in PU. discriminate.
Qed.

Lemma up_iter_sound : forall fuel db facts m,
  forallb (lit_val m) facts = true -> sat_problem m db = true ->
  match up_iter fuel facts db with
  | Some f' => forallb (lit_val m) f' = true
  | None => False
  end.
Proof.
  induction fuel as [|f IH]; intros db facts m F S; [exact F|].
  cbn [up_iter]. pose proof (up_pass_sound db facts m F S) as G.
  destruct (up_pass facts db) as [f'|]; [|exact G]. apply IH; assumption.
Qed.

Lemma in_skipn : forall (A : Type) k (l : list A) x, In x (skipn k l) -> In x l.
Proof.
  intros A k l x H. rewrite <- (firstn_skipn k l). apply in_or_app. right. exact H.
Qed.

Theorem infer_up_ok : infer_ok infer_up.
Proof.
  intros n F D. unfold infer_up.
  destruct (up_iter (S n) F D) as [f'|] eqn:E.
  - intros m S. rewrite sat_problem_app, sat_units in S. apply andb_true_iff in S.
    destruct S as [SF SD]. pose proof (up_iter_sound (S n) D F m SF SD) as G.
    rewrite E in G. apply forallb_forall. intros l Hl. apply in_skipn in Hl.
    apply (forallb_in m f' l G Hl).
  - intros m. destruct (sat_problem m (units F ++ D)) eqn:S; [|reflexivity].
    rewrite sat_problem_app, sat_units in S. apply andb_true_iff in S.
    destruct S as [SF SD]. pose proof (up_iter_sound (S n) D F m SF SD) as G.
    rewrite E in G. contradiction.
Qed.

Theorem add_constraint_equiv_refuted : exists st c m,
  pbc_nonneg c /\ state_models st m /\ sat_pbc m c = true /\
  ~ state_models (add_constraint infer_none st c) m.
Proof.
  exists (IState 2 [] [] false), (PBC [(1, 1); (0, 2)] 1), [true; false].
  split; [|split; [|split]].
  - repeat constructor; simpl; lia.
  - split; reflexivity.
  - reflexivity.
  - intros [_ H]. vm_compute in H. discriminate.
Qed.
