(* The two line-based CNF readers: explain.ParseCNF and maxsat.ParseWCNF read
   back every layout that [render_explain_b] / [render_wcnf_b] write, and
   explain's Problem.CNF() is read back by explain.ParseCNF. *)
From Coq Require Import List ZArith Bool NArith String Ascii Lia Arith.
From GS Require Import Spec.Base Model.Text Model.TextPrint
  Proofs.TextNum Proofs.TextLex Proofs.TextDimacs Proofs.TextOpb.
Import ListNotations.
Open Scope Z_scope.

Lemma omap_atoi_print : forall zs, omap_atoi (map print_Zl zs) = Some zs.
Proof.
  induction zs as [|z r IH]; [reflexivity|].
  cbn [map omap_atoi]. rewrite atoi_print_Zl, IH. reflexivity.
Qed.

Lemma filter_nonzero : forall c, (forall l, In l c -> l <> 0) -> filter nonzero (c ++ [0]) = c.
Proof.
  induction c as [|l c IH]; intros H; [reflexivity|].
  cbn [app filter]. unfold nonzero at 1.
  replace (l =? 0) with false by (symmetry; apply Z.eqb_neq; apply H; left; reflexivity).
  cbn [negb]. rewrite IH; [reflexivity|]. intros x Hx. apply H. right. exact Hx.
Qed.

Lemma print_Zl_first : forall z, exists c0 r0, print_Zl z = c0 :: r0 /\ is_numchar c0 = true.
Proof.
  intros z. pose proof (print_Zl_nonempty z) as Hne. pose proof (print_Zl_numchars z) as Hn.
  destruct (print_Zl z) as [|c0 r0]; [congruence|].
  cbn [forallb] in Hn. apply andb_true_iff in Hn. destruct Hn as [Hc _].
  exists c0, r0. split; [reflexivity|exact Hc].
Qed.

(* first field of a clause line *)
Lemma num_toks_first : forall zs, exists c0 r0 rest,
  map print_Zl zs ++ [tok "0"] = (c0 :: r0) :: rest /\ is_numchar c0 = true.
Proof.
  intros zs. destruct zs as [|z zs].
  - eexists. eexists. eexists. split; [reflexivity|reflexivity].
  - destruct (print_Zl_first z) as [c0 [r0 [E Hc]]]. exists c0, r0. eexists.
    split; [cbn [map app]; rewrite E; reflexivity|exact Hc].
Qed.

(* ------------------------------------------------------------------ *)
(* a rendered clause line: [pre] tokens, the literals, "0" *)

Lemma render_clause_line_spec : forall pre c lay, Forall gtok pre ->
  let b := fst (render_clause_line pre c lay) in
  fields b = pre ++ lits_toks c ++ [tok "0"] /\ clean b /\
  exists lead rest, b = lead ++ rest /\ forallb is_blank lead = true /\
    forall c0 r0 more, pre ++ lits_toks c ++ [tok "0"] = (c0 :: r0) :: more ->
                       exists rest', rest = c0 :: rest'.
Proof.
  intros pre c lay Hpre. unfold render_clause_line.
  pose proof (sep0_inline lay) as Hl. destruct (sep0 lay) as [lead l1]. cbn [fst] in Hl.
  assert (Hg : Forall gtok (pre ++ lits_toks c)).
  { apply Forall_app. split; [exact Hpre|]. unfold lits_toks. rewrite Forall_map.
    apply Forall_forall. intros z _. apply gtok_print_Zl. }
  destruct (spaced_toks_spec _ l1 Hg) as [G M].
  pose proof (spaced_toks_blank (pre ++ lits_toks c) l1) as B.
  destruct (spaced_toks (pre ++ lits_toks c) l1) as [ps l2]. cbn [fst] in *.
  pose proof (sep0_inline l2) as He. destruct (sep0 l2) as [e l3]. cbn [fst] in *.
  repeat split.
  - rewrite fields_skip by (apply blanks_fspace; exact Hl).
    rewrite fields_flat by exact G.
    rewrite fields_tok_trail by (first [apply blanks_fspace; exact He | split; [discriminate|reflexivity]]).
    rewrite M, <- app_assoc. reflexivity.
  - apply clean_app; [apply clean_blanks; exact Hl|].
    apply clean_app; [apply good_pairs_clean; assumption|].
    apply clean_app; [reflexivity|apply clean_blanks; exact He].
  - exists lead, (flat ps ++ tok "0" ++ e). split; [reflexivity|]. split; [exact Hl|].
    intros c0 r0 more E. destruct ps as [|[t s] ps].
    + cbn [map] in M. destruct pre; [|discriminate]. destruct c; [|discriminate].
      cbn [app lits_toks map] in E. injection E as E1 E2 E3. subst c0.
      eexists. reflexivity.
    + cbn [map fst] in M. rewrite app_assoc in E. rewrite <- M in E. cbn [app] in E.
      injection E as E1 E2. subst t. unfold flat. cbn [map List.concat fst snd app].
      eexists. reflexivity.
Qed.

(* ------------------------------------------------------------------ *)
(* explain.ParseCNF *)

Lemma leqb_first_false : forall c0 r0 x, Ascii.eqb c0 x = false -> leqb (c0 :: r0) [x] = false.
Proof. intros c0 r0 x H. cbn [leqb]. rewrite H. reflexivity. Qed.

Lemma expl_clause_fields : forall line c n m cls,
  fields line = map print_Zl c ++ [tok "0"] -> wf_lits n c ->
  expl_line line (n, m, cls) = POk (n, m, cls ++ [c]).
Proof.
  intros line c n m cls Hf Hwf. unfold expl_line. rewrite Hf.
  destruct (num_toks_first c) as [c0 [r0 [rest [E Hc]]]].
  destruct (numchar_facts c0 Hc) as [_ [Hcc Hcp]].
  rewrite E. cbn [tok list_ascii_of_string].
  rewrite (leqb_first_false c0 r0 "c"%char Hcc), (leqb_first_false c0 r0 "p"%char Hcp).
  rewrite <- E. change (tok "0") with (print_Zl 0).
  change (map print_Zl c ++ [print_Zl 0]) with (map print_Zl c ++ map print_Zl [0]).
  rewrite <- map_app, omap_atoi_print.
  rewrite filter_nonzero by (intros l Hl; apply Hwf; exact Hl).
  destruct c as [|l [|l2 c]]; try reflexivity.
  replace (n <? Z.abs l) with false; [reflexivity|].
  symmetry. apply Z.ltb_ge. apply Hwf. left. reflexivity.
Qed.

Lemma expl_header_fields : forall line n m st,
  fields line = [tok "p"; tok "cnf"; print_Zl n; print_Zl m] -> 0 <= n -> 0 <= m ->
  expl_line line st = POk (n, m, []).
Proof.
  intros line n m [[nv nc] cls] Hf Hn Hm. unfold expl_line. rewrite Hf.
  change (leqb (tok "p") (tok "c")) with false. change (leqb (tok "p") (tok "p")) with true.
  cbv iota. rewrite !atoi_print_Zl.
  replace (n <? 0) with false by (symmetry; apply Z.ltb_ge; exact Hn).
  replace (m <? 0) with false by (symmetry; apply Z.ltb_ge; exact Hm).
  reflexivity.
Qed.

Lemma expl_skip_filler : forall (fl : list tline) r st,
  Forall (fun l => filler_line (tok "c") true false (fst l)) fl ->
  expl_lines (map fst fl ++ r) st = expl_lines r st.
Proof.
  induction fl as [|[l e] fl IH]; intros r st H; [reflexivity|].
  inversion H as [|x y Hl Hr]; subst. cbn [fst] in Hl. cbn [map fst app expl_lines].
  assert (Hline : expl_line l st = POk st).
  { destruct st as [[nv nc] cls]. destruct Hl as [Hb|[ld [t [_ [Hld [Ht ->]]]]]].
    { unfold expl_line. rewrite <- (app_nil_r l), fields_skip by (apply blanks_fspace; exact Hb).
      reflexivity. }
    rewrite (Hld eq_refl). cbn [app].
    unfold expl_line. destruct t as [|t0 t].
    - rewrite app_nil_r. reflexivity.
    - change (tok "c" ++ SP :: t0 :: t) with (tok "c" ++ SP :: (t0 :: t)).
      rewrite fields_tok_sep by (first [reflexivity | split; [discriminate|reflexivity]]).
      reflexivity. }
  rewrite Hline. apply IH. exact Hr.
Qed.

Lemma expl_clause_lines_spec : forall F lay n m cls r,
  (forall c, In c F -> wf_lits n c) ->
  clean_lines (fst (render_clause_lines (tok "c") true F lay)) /\
  expl_lines (map fst (fst (render_clause_lines (tok "c") true F lay)) ++ r) (n, m, cls)
  = expl_lines r (n, m, cls ++ F).
Proof.
  induction F as [|c F IH]; intros lay n m cls r Hwf.
  - cbn [render_clause_lines fst map app]. rewrite app_nil_r. split; [constructor|reflexivity].
  - cbn [render_clause_lines].
    pose proof (gen_filler_spec (tok "c") true false lay) as Hfl.
    destruct (gen_filler (tok "c") true false lay) as [fl l1]. cbn [fst] in Hfl.
    destruct (render_clause_line_spec [] c l1 ltac:(constructor)) as [Hf [Hc _]].
    destruct (render_clause_line [] c l1) as [b l2]. cbn [fst] in Hf, Hc.
    destruct (next l2) as [e l3].
    specialize (IH l3 n m (cls ++ [c]) r ltac:(intros c' H'; apply Hwf; right; exact H')).
    destruct (render_clause_lines (tok "c") true F l3) as [rest l4]. cbn [fst] in *.
    destruct IH as [IH1 IH2]. split.
    + apply Forall_app. split.
      * apply (filler_clean_lines (tok "c") true false); [reflexivity|exact Hfl].
      * constructor; [exact Hc|exact IH1].
    + rewrite map_app, <- app_assoc, expl_skip_filler by exact Hfl.
      cbn [map fst app expl_lines].
      rewrite (expl_clause_fields b c n m cls Hf) by (apply Hwf; left; reflexivity).
      etransitivity; [exact IH2|]. rewrite <- app_assoc. reflexivity.
Qed.

Theorem C13_explain_b : forall lay n F, wf_dimacs n F ->
  lines_short (render_explain_b lay n F) ->
  parse_explain_r (render_explain_b lay n F) = POk (n, Z.of_nat (List.length F), F).
Proof.
  intros lay n F [Hn Hwf]. unfold render_explain_b.
  pose proof (gen_filler_spec (tok "c") true false lay) as Hfl.
  destruct (gen_filler (tok "c") true false lay) as [fl l1]. cbn [fst] in Hfl.
  pose proof (header_fields "cnf" [n; Z.of_nat (List.length F)] l1 [] ltac:(discriminate)
                gtok_cnf eq_refl) as Hhf.
  pose proof (header_clean "cnf" [n; Z.of_nat (List.length F)] l1 ltac:(discriminate) gtok_cnf) as Hhc.
  destruct (render_header "cnf" [n; Z.of_nat (List.length F)] l1) as [h l2]. cbn [fst] in Hhf, Hhc.
  rewrite app_nil_r in Hhf. destruct (next l2) as [e l3].
  pose proof (fun r => expl_clause_lines_spec F l3 n (Z.of_nat (List.length F)) [] r Hwf) as Hbody.
  destruct (render_clause_lines (tok "c") true F l3) as [body l4]. cbn [fst] in Hbody.
  pose proof (gen_filler_spec (tok "c") true false l4) as Hfl2.
  destruct (gen_filler (tok "c") true false l4) as [fl2 l5]. cbn [fst] in Hfl2.
  destruct (next l5) as [o l6]. intros Hshort.
  destruct (Hbody (map fst fl2)) as [Cbody Hb].
  assert (Hclean : clean_lines (fl ++ (h, Nat.odd e) :: body ++ fl2)).
  { apply Forall_app. split; [apply (filler_clean_lines (tok "c") true false); [reflexivity|exact Hfl]|].
    constructor; [exact Hhc|]. apply Forall_app. split; [exact Cbody|].
    apply (filler_clean_lines (tok "c") true false); [reflexivity|exact Hfl2]. }
  unfold parse_explain_r. rewrite scan_lines_join by assumption.
  rewrite map_app, expl_skip_filler by exact Hfl.
  cbn [map fst expl_lines].
  rewrite (expl_header_fields h n (Z.of_nat (List.length F)) (0, 0, []) Hhf Hn ltac:(lia)).
  rewrite map_app.
  match goal with
  | |- match ?X with _ => _ end = _ =>
    assert (HX : X = expl_lines (map fst fl2) (n, Z.of_nat (List.length F), [] ++ F)) by exact Hb;
    rewrite HX
  end.
  rewrite <- (app_nil_r (map fst fl2)), expl_skip_filler by exact Hfl2. reflexivity.
Qed.

Theorem C13_explain : forall lay n F, wf_dimacs n F ->
  lines_short (list_ascii_of_string (render_explain lay n F)) ->
  parse_dimacs_explain (render_explain lay n F) = Some (n, Z.of_nat (List.length F), F).
Proof.
  intros lay n F Hwf Hs. unfold parse_dimacs_explain, render_explain in *.
  rewrite list_ascii_of_string_of_list_ascii in *.
  rewrite C13_explain_b by assumption. reflexivity.
Qed.

(* explain's Problem.CNF() *)

Lemma fields_join_sp : forall ts, Forall gtok ts -> fields (join [SP] ts) = ts.
Proof.
  induction ts as [|t r IH]; intros H; [reflexivity|].
  inversion H as [|x y Ht Hr]; subst. destruct r as [|t2 r].
  - cbn [join]. apply fields_tok_end. exact Ht.
  - change (join [SP] (t :: t2 :: r)) with (t ++ SP :: join [SP] (t2 :: r)).
    rewrite fields_tok_sep by (try reflexivity; exact Ht). rewrite IH by exact Hr. reflexivity.
Qed.

Lemma clean_join_sp : forall ts, Forall gtok ts -> clean (join [SP] ts).
Proof.
  induction ts as [|t r IH]; intros H; [reflexivity|].
  inversion H as [|x y [_ Ht] Hr]; subst. destruct r as [|t2 r].
  - cbn [join]. apply clean_graph. exact Ht.
  - change (join [SP] (t :: t2 :: r)) with (t ++ [SP] ++ join [SP] (t2 :: r)).
    apply clean_app; [apply clean_graph; exact Ht|]. apply clean_app; [reflexivity|].
    apply IH. exact Hr.
Qed.

Lemma clause_toks_gtok : forall c, Forall gtok (map print_Zl c ++ [tok "0"]).
Proof.
  intros c. apply Forall_app. split.
  - rewrite Forall_map. apply Forall_forall. intros z _. apply gtok_print_Zl.
  - constructor; [split; [discriminate|reflexivity]|constructor].
Qed.

Lemma expl_print_lines : forall F n m cls r,
  (forall c, In c F -> wf_lits n c) ->
  expl_lines (map (fun c => join [SP] (map print_Zl c ++ [tok "0"])) F ++ r) (n, m, cls)
  = expl_lines r (n, m, cls ++ F).
Proof.
  induction F as [|c F IH]; intros n m cls r Hwf.
  - cbn [map app]. rewrite app_nil_r. reflexivity.
  - cbn [map app expl_lines].
    rewrite (expl_clause_fields _ c n m cls (fields_join_sp _ (clause_toks_gtok c)))
      by (apply Hwf; left; reflexivity).
    rewrite IH by (intros c' H'; apply Hwf; right; exact H').
    rewrite <- app_assoc. reflexivity.
Qed.

Theorem C18_explain_b : forall n F, wf_dimacs n F ->
  lines_short (print_explain_b (n, F)) ->
  parse_explain_r (print_explain_b (n, F)) = POk (n, Z.of_nat (List.length F), F).
Proof.
  intros n F [Hn Hwf]. unfold print_explain_b. cbv beta iota.
  set (hdr := tok "p cnf " ++ print_Zl n ++ [SP] ++ print_Zl (Z.of_nat (List.length F))).
  set (cl := fun c : clause => join [SP] (map print_Zl c ++ [tok "0"])).
  change (join [LF] (hdr :: map (fun c : list Z => join [SP] (map print_Zl c ++ [tok "0"])) F))
    with (join [LF] (hdr :: map cl F)).
  assert (Hhdr : hdr = join [SP] [tok "p"; tok "cnf"; print_Zl n; print_Zl (Z.of_nat (List.length F))]).
  { unfold hdr. cbn [join tok list_ascii_of_string app]. reflexivity. }
  assert (Hg : Forall gtok [tok "p"; tok "cnf"; print_Zl n; print_Zl (Z.of_nat (List.length F))]).
  { repeat constructor; try discriminate; try apply gtok_print_Zl. }
  assert (Hne : Forall (fun l : bytes => l <> []) (hdr :: map cl F)).
  { constructor; [unfold hdr; discriminate|]. rewrite Forall_map. apply Forall_forall.
    intros c _. unfold cl. intro E. pose proof (fields_join_sp _ (clause_toks_gtok c)) as Hf.
    rewrite E in Hf. destruct (map print_Zl c); discriminate. }
  rewrite (join_LF_lines _ Hne). intros Hshort.
  assert (Hclean : Forall clean (hdr :: map cl F)).
  { constructor; [rewrite Hhdr; apply clean_join_sp; exact Hg|].
    rewrite Forall_map. apply Forall_forall. intros c _. apply clean_join_sp. apply clause_toks_gtok. }
  unfold parse_explain_r.
  rewrite scan_lines_join by (try assumption; apply clean_lines_map; exact Hclean).
  rewrite map_fst_pair. cbn [expl_lines].
  rewrite (expl_header_fields hdr n (Z.of_nat (List.length F)) (0, 0, [])
             ltac:(rewrite Hhdr; apply fields_join_sp; exact Hg) Hn ltac:(lia)).
  rewrite <- (app_nil_r (map cl F)). unfold cl. rewrite expl_print_lines by exact Hwf.
  reflexivity.
Qed.

Theorem C18_explain : forall n F, wf_dimacs n F ->
  lines_short (list_ascii_of_string (print_explain (n, F))) ->
  parse_dimacs_explain (print_explain (n, F)) = Some (n, Z.of_nat (List.length F), F).
Proof.
  intros n F Hwf Hs. unfold parse_dimacs_explain, print_explain in *.
  rewrite list_ascii_of_string_of_list_ascii in *.
  rewrite C18_explain_b by assumption. reflexivity.
Qed.

(* ------------------------------------------------------------------ *)
(* maxsat.ParseWCNF *)

Definition nozero (c : clause) : Prop := forall l, In l c -> l <> 0.

Definition wf_wcnf (I : Z * Z * list wclause) : Prop :=
  let '(n, top, items) := I in 0 <= n /\ Forall (fun it => nozero (snd it)) items.

Lemma slice_panics_nozero : forall cls, Forall nozero cls -> slice_panics cls = false.
Proof.
  induction cls as [|c r IH]; intros H; [reflexivity|].
  inversion H as [|x y Hc Hr]; subst. destruct c as [|l c]; [reflexivity|].
  cbn [slice_panics].
  replace (existsb (Z.eqb 0) (l :: c)) with false; [apply IH; exact Hr|].
  symmetry. apply not_true_is_false. intro E. apply existsb_exists in E.
  destruct E as [x [Hx Ex]]. apply Z.eqb_eq in Ex. subst x. exact (Hc 0 Hx eq_refl).
Qed.

Definition winv (n top : Z) (st : wstate) : Prop :=
  w_nbvars st = n /\ w_top st = top /\ n + 1 <= w_relax st /\ Forall nozero (w_goclauses st).

Lemma wcnf_skip_filler : forall (fl : list tline) r st,
  Forall (fun l => filler_line (tok "c") false false (fst l)) fl ->
  wcnf_lines (map fst fl ++ r) st = wcnf_lines r st.
Proof.
  induction fl as [|[l e] fl IH]; intros r st H; [reflexivity|].
  inversion H as [|x y Hl Hr]; subst. cbn [fst] in Hl. cbn [map fst app wcnf_lines].
  assert (Hline : wcnf_line l st = POk st).
  { destruct Hl as [Hb|[ld [t [_ [Hld [_ ->]]]]]].
    - unfold wcnf_line. destruct l as [|c0 l]; [reflexivity|].
      rewrite trim_space_blank by (apply blanks_fspace; exact Hb). reflexivity.
    - rewrite (Hld eq_refl). cbn [tok list_ascii_of_string app wcnf_line].
      destruct (trim_space_head [] "c"%char t eq_refl eq_refl) as [t' Et]. cbn [app] in Et.
      rewrite Et. change (Ascii.eqb "c" "p") with false. change (Ascii.eqb "c" "c") with true.
      reflexivity. }
  rewrite Hline. apply IH. exact Hr.
Qed.

Lemma wcnf_clause_line : forall b w c st n top,
  fields b = [print_Zl w] ++ lits_toks c ++ [tok "0"] ->
  (exists c0 r0, b = c0 :: r0 /\ Ascii.eqb c0 "p" = false /\ Ascii.eqb c0 "c" = false) ->
  trim_space b <> [] ->
  winv n top st -> 0 <= n -> nozero c ->
  exists st', wcnf_line b st = POk st' /\ winv n top st' /\
              w_items st' = w_items st ++ [(w, c)].
Proof.
  intros b w c st n top Hf [c0 [r0 [Eb [Hp Hc]]]] Htrim [I1 [I2 [I3 I4]]] Hn Hz.
  assert (Hcl : wcnf_clause b (w_top st) (w_relax st)
                = POk (c, if (w_top st =? 0) || (w <? w_top st) then c ++ [w_relax st] else c, w)).
  { unfold wcnf_clause. rewrite Hf. cbn [app].
    change (tok "0") with (print_Zl 0). unfold lits_toks.
    change ([print_Zl 0]) with (map print_Zl [0]). rewrite <- map_app.
    change (print_Zl w :: map print_Zl (c ++ [0])) with (map print_Zl (w :: c ++ [0])).
    rewrite omap_atoi_print.
    assert (Hrl : removelast (c ++ [0]) = c) by apply removelast_last.
    destruct (c ++ [0]) as [|x xs] eqn:E; [destruct c; discriminate|].
    destruct ((w_top st =? 0) || (w <? w_top st)); repeat f_equal; exact Hrl. }
  rewrite Eb in *. cbn [wcnf_line].
  destruct (trim_space (c0 :: r0)) as [|tt0 tt] eqn:Et; [congruence|].
  rewrite Hp, Hc, Hcl.
  destruct ((w_top st =? 0) || (w <? w_top st)).
  - eexists. split; [reflexivity|]. split; [|reflexivity].
    unfold winv. cbn [w_nbvars w_top w_relax w_goclauses]. repeat split; try assumption; try lia.
    apply Forall_app. split; [exact I4|]. constructor; [|constructor].
    intros l Hl. apply in_app_or in Hl. destruct Hl as [Hl|[<-|[]]]; [apply Hz; exact Hl|lia].
  - eexists. split; [reflexivity|]. split; [|reflexivity].
    unfold winv. cbn [w_nbvars w_top w_relax w_goclauses]. repeat split; try assumption.
    apply Forall_app. split; [exact I4|]. constructor; [exact Hz|constructor].
Qed.

Lemma wclause_lines_spec : forall items lay st n top r,
  winv n top st -> 0 <= n -> Forall (fun it => nozero (snd it)) items ->
  clean_lines (fst (render_wclause_lines items lay)) /\
  exists st', wcnf_lines (map fst (fst (render_wclause_lines items lay)) ++ r) st
              = wcnf_lines r st' /\ winv n top st' /\ w_items st' = w_items st ++ items.
Proof.
  induction items as [|[w c] items IH]; intros lay st n top r Hinv Hn Hz.
  - cbn [render_wclause_lines fst map app]. split; [constructor|].
    exists st. rewrite app_nil_r. auto.
  - inversion Hz as [|x y Hc Hzs]; subst. cbn [snd] in Hc. cbn [render_wclause_lines].
    pose proof (gen_filler_spec (tok "c") false false lay) as Hfl.
    destruct (gen_filler (tok "c") false false lay) as [fl l1]. cbn [fst] in Hfl.
    destruct (render_clause_line_spec [print_Zl w] c l1
                ltac:(constructor; [apply gtok_print_Zl|constructor]))
      as [Hf [Hcl [lead [rest0 [Eb [Hlead Hfirst]]]]]].
    destruct (render_clause_line [print_Zl w] c l1) as [b l2]. cbn [fst] in *.
    destruct (next l2) as [e l3].
    assert (Hb0 : exists c0 r0, b = c0 :: r0 /\ Ascii.eqb c0 "p" = false /\ Ascii.eqb c0 "c" = false).
    { destruct (print_Zl_first w) as [c0 [r0 [E Hc0]]].
      destruct (Hfirst c0 r0 (lits_toks c ++ [tok "0"])) as [rest' Er].
      { cbn [app]. rewrite E. reflexivity. }
      destruct lead as [|b0 lead].
      - exists c0, rest'. split; [rewrite Eb, Er; reflexivity|].
        destruct (numchar_facts c0 Hc0) as [_ [A B]]. split; assumption.
      - exists b0. eexists. split; [rewrite Eb; reflexivity|].
        cbn [forallb] in Hlead. apply andb_true_iff in Hlead. destruct Hlead as [Hb0 _].
        clear - Hb0. codes. split; zcases. }
    assert (Htrim : trim_space b <> []).
    { destruct (print_Zl_first w) as [c0 [r0 [E Hc0]]].
      destruct (Hfirst c0 r0 (lits_toks c ++ [tok "0"])) as [rest' Er].
      { cbn [app]. rewrite E. reflexivity. }
      destruct (trim_space_head lead c0 rest' (blanks_fspace _ Hlead)
                  (graph_not_fspace c0 (numchar_graph c0 Hc0))) as [t' Et].
      rewrite Eb, Er, Et. discriminate. }
    destruct (wcnf_clause_line b w c st n top Hf Hb0 Htrim Hinv Hn Hc) as [st1 [Hl1 [Hinv1 Hit1]]].
    destruct (IH l3 st1 n top r Hinv1 Hn Hzs) as [IH1 [st' [IH2 [IH3 IH4]]]].
    destruct (render_wclause_lines items l3) as [rest l4]. cbn [fst] in *.
    split.
    + apply Forall_app. split.
      * apply (filler_clean_lines (tok "c") false false); [reflexivity|exact Hfl].
      * constructor; [exact Hcl|exact IH1].
    + exists st'. split; [|split; [exact IH3|]].
      * rewrite map_app, <- app_assoc, wcnf_skip_filler by exact Hfl.
        cbn [map fst app wcnf_lines]. rewrite Hl1. exact IH2.
      * rewrite IH4, Hit1, <- app_assoc. reflexivity.
Qed.

Lemma gtok_wcnf : gtok (tok "wcnf").
Proof. split; [discriminate|reflexivity]. Qed.

Lemma wcnf_header_line : forall h n m top st,
  (exists hb, h = "p"%char :: hb) ->
  fields h = [tok "p"; tok "wcnf"] ++ map print_Zl ([n; m] ++ (if top =? 0 then [] else [top])) ->
  0 <= m -> w_top st = 0 ->
  wcnf_line h st = POk (WState n top (n + 1) [] [] []).
Proof.
  intros h n m top st [hb Eh] Hf Hm Ht. rewrite Eh in *. cbn [wcnf_line].
  destruct (trim_space_head [] "p"%char hb eq_refl eq_refl) as [t' Et]. cbn [app] in Et.
  rewrite Et.
  change (Ascii.eqb "p" "p") with true. cbv iota. rewrite Hf.
  destruct (top =? 0) eqn:E.
  - apply Z.eqb_eq in E. subst top. cbn [app map].
    change (leqb (tok "wcnf") (tok "wcnf")) with true. cbn [negb]. rewrite !atoi_print_Zl.
    replace (m <? 0) with false by (symmetry; apply Z.ltb_ge; exact Hm). rewrite Ht. reflexivity.
  - cbn [app map].
    change (leqb (tok "wcnf") (tok "wcnf")) with true. cbn [negb]. rewrite !atoi_print_Zl.
    replace (m <? 0) with false by (symmetry; apply Z.ltb_ge; exact Hm). reflexivity.
Qed.

Theorem C13_wcnf_b : forall lay n top items, wf_wcnf (n, top, items) ->
  lines_short (render_wcnf_b lay (n, top, items)) ->
  parse_wcnf_r (render_wcnf_b lay (n, top, items)) = POk (n, top, items).
Proof.
  intros lay n top items [Hn Hz]. unfold render_wcnf_b.
  pose proof (gen_filler_spec (tok "c") false false lay) as Hfl.
  destruct (gen_filler (tok "c") false false lay) as [fl l1]. cbn [fst] in Hfl.
  set (nums := [n; Z.of_nat (List.length items)] ++ (if top =? 0 then [] else [top])).
  assert (Hnums : nums <> []) by (unfold nums; discriminate).
  pose proof (header_fields "wcnf" nums l1 [] Hnums gtok_wcnf eq_refl) as Hhf.
  pose proof (header_clean "wcnf" nums l1 Hnums gtok_wcnf) as Hhc.
  pose proof (header_starts_p "wcnf" nums l1) as Hhp.
  destruct (render_header "wcnf" nums l1) as [h l2]. cbn [fst] in Hhf, Hhc, Hhp.
  rewrite app_nil_r in Hhf. destruct (next l2) as [e l3].
  assert (Hinv0 : winv n top (WState n top (n + 1) [] [] [])).
  { unfold winv. cbn. repeat split; try lia. constructor. }
  pose proof (fun r => wclause_lines_spec items l3 _ n top r Hinv0 Hn Hz) as Hbody.
  destruct (render_wclause_lines items l3) as [body l4]. cbn [fst] in Hbody.
  pose proof (gen_filler_spec (tok "c") false false l4) as Hfl2.
  destruct (gen_filler (tok "c") false false l4) as [fl2 l5]. cbn [fst] in Hfl2.
  destruct (next l5) as [o l6]. intros Hshort.
  destruct (Hbody (map fst fl2)) as [Cbody [st' [Hb [[J1 [J2 [J3 J4]]] Hitems]]]].
  assert (Hclean : clean_lines (fl ++ (h, Nat.odd e) :: body ++ fl2)).
  { apply Forall_app. split; [apply (filler_clean_lines (tok "c") false false); [reflexivity|exact Hfl]|].
    constructor; [exact Hhc|]. apply Forall_app. split; [exact Cbody|].
    apply (filler_clean_lines (tok "c") false false); [reflexivity|exact Hfl2]. }
  unfold parse_wcnf_r, parse_wcnf_state. rewrite scan_lines_join by assumption.
  rewrite map_app, wcnf_skip_filler by exact Hfl.
  cbn [map fst wcnf_lines].
  rewrite (wcnf_header_line h n (Z.of_nat (List.length items)) top wstate0 Hhp Hhf ltac:(lia) eq_refl).
  rewrite map_app.
  match goal with
  | |- match match ?X with _ => _ end with _ => _ end = _ =>
    assert (HX : X = wcnf_lines (map fst fl2) st') by exact Hb; rewrite HX
  end.
  rewrite <- (app_nil_r (map fst fl2)), wcnf_skip_filler by exact Hfl2.
  cbn [wcnf_lines].
  replace (w_relax st' - w_nbvars st' - 1 <? 0) with false by (symmetry; apply Z.ltb_ge; lia).
  rewrite (slice_panics_nozero _ J4).
  rewrite J1, J2, Hitems. reflexivity.
Qed.

Theorem C13_wcnf : forall lay n top items, wf_wcnf (n, top, items) ->
  lines_short (list_ascii_of_string (render_wcnf lay (n, top, items))) ->
  parse_wcnf (render_wcnf lay (n, top, items)) = Some (n, top, items).
Proof.
  intros lay n top items Hwf Hs. unfold parse_wcnf, render_wcnf in *.
  rewrite list_ascii_of_string_of_list_ascii in *.
  rewrite C13_wcnf_b by assumption. reflexivity.
Qed.
