(* A fuel-free evaluator for the statements of Model/GoIR2.v that contain neither [SFor] nor [SCall].

   [exec] spends one unit of fuel per nesting step, per turn of a [for] and per call; the turns of a [range] all run
   with the fuel of the [SRange] itself.  So a statement without [SFor] / [SCall] needs no more fuel than its depth,
   and what it does is a structural function of the statement: [exec0].  [exec_exec0] ties the two;
   [runs_exec0] gives the big-step form of Proofs/GoIR2.v.  Symbolic execution of a loop body is then plain
   computation on [exec0], with no fuel to account for.

   Also here: [lookup] / [upd] algebra for frames that are only known through some of their names. *)
From Coq Require Import List ZArith Bool String Lia Arith.
From GS Require Import Model.GoIR2 Proofs.GoIR2.
Import ListNotations.
Open Scope list_scope.
Notation length := List.length (only parsing).
Open Scope Z_scope.

Fixpoint exec0 (s : stmt) (st : state) {struct s} : outcome :=
  match s with
  | SSeq a b =>
    match exec0 a st with
    | ONormal st' => exec0 b st'
    | o => o
    end
  | SIf c a b =>
    of_eres (eval st c) (fun v => match v with
      | VBool true => exec0 a st
      | VBool false => exec0 b st
      | _ => OStuck end)
  | SRange i v a body =>
    of_eres (eval st a) (fun va => match va with
      | VNil => ONormal st
      | VSl s => range_go (exec0 body) i v (get_sl s) (s_len s) O st
      | VList l => range_go (exec0 body) i v (get_list l) (length l) O st
      | _ => OStuck end)
  | SFor _ _ _ => OStuck
  | SCall _ _ _ => OStuck
  | _ => exec [] 1 s st          (* the statements without sub-statements: one step, no function looked up *)
  end.

Fixpoint simple (s : stmt) : bool :=
  match s with
  | SSeq a b => simple a && simple b
  | SIf _ a b => simple a && simple b
  | SRange _ _ _ body => simple body
  | SFor _ _ _ => false
  | SCall _ _ _ => false
  | _ => true
  end.

Fixpoint depth (s : stmt) : nat :=
  match s with
  | SSeq a b => S (Nat.max (depth a) (depth b))
  | SIf _ a b => S (Nat.max (depth a) (depth b))
  | SRange _ _ _ body => S (depth body)
  | SFor _ post body => S (Nat.max (depth post) (depth body))
  | _ => 1%nat
  end.

Lemma range_go_ext : forall (r r' : state -> outcome) i v get,
  (forall st, r st = r' st) ->
  forall n k st, range_go r i v get n k st = range_go r' i v get n k st.
Proof.
  intros r r' i v get H n. induction n as [|n IH]; intros k st; [reflexivity|].
  cbn [range_go]. cbv zeta. rewrite H.
  match goal with |- match ?o with _ => _ end = _ => destruct o end; try reflexivity; apply IH.
Qed.

Theorem exec_exec0 : forall fe s fu st, simple s = true -> (depth s <= fu)%nat ->
  exec fe fu s st = exec0 s st.
Proof.
  intros fe s. induction s; intros fu st Hs Hd; cbn [simple] in Hs; try discriminate;
    (destruct fu as [|fu]; [cbn [depth] in Hd; lia|]); cbn [depth] in Hd; try reflexivity.
  - (* SSeq *)
    apply andb_true_iff in Hs. destruct Hs as (Hs1 & Hs2).
    cbn [exec exec0]. rewrite IHs1 by (try assumption; lia).
    destruct (exec0 s1 st); try reflexivity. apply IHs2; [assumption|lia].
  - (* SIf *)
    apply andb_true_iff in Hs. destruct Hs as (Hs1 & Hs2).
    cbn [exec exec0]. destruct (eval st c) as [v| |]; cbn [of_eres]; try reflexivity.
    destruct v; try reflexivity. destruct b; [apply IHs1|apply IHs2]; try assumption; lia.
  - (* SRange *)
    cbn [exec exec0]. destruct (eval st a) as [va| |]; cbn [of_eres]; try reflexivity.
    destruct va; try reflexivity; apply range_go_ext; intros st0; apply IHs; try assumption; lia.
Qed.

Lemma runs_exec0 : forall fe s st o, simple s = true -> exec0 s st = o -> o <> OFuel -> runs fe s st o.
Proof.
  intros fe s st o Hs H N. exists (depth s). split; [|exact N].
  rewrite exec_exec0 by (try assumption; lia). exact H.
Qed.

(* ---- exec0, one constructor at a time (for rewriting) *)

Lemma exec0_seq : forall a b st st', exec0 a st = ONormal st' -> exec0 (SSeq a b) st = exec0 b st'.
Proof. intros a b st st' H. cbn [exec0]. rewrite H. reflexivity. Qed.

Lemma exec0_seq_abrupt : forall a b st o, exec0 a st = o -> abrupt o -> exec0 (SSeq a b) st = o.
Proof. intros a b st o H Ho. cbn [exec0]. rewrite H. destruct o; try reflexivity; contradiction. Qed.

Lemma exec0_if : forall c a b st (t : bool), eval st c = EV (VBool t) ->
  exec0 (SIf c a b) st = if t then exec0 a st else exec0 b st.
Proof. intros c a b st t H. cbn [exec0]. rewrite H. destruct t; reflexivity. Qed.

Lemma exec0_set : forall x e st v, eval st e = EV v -> exec0 (SSet x e) st = ONormal (set_local st x v).
Proof. intros x e st v H. cbn [exec0 exec]. rewrite H. reflexivity. Qed.

Lemma exec0_return : forall e st v, eval st e = EV v -> exec0 (SReturn e) st = OReturn v (hp st).
Proof. intros e st v H. cbn [exec0 exec]. rewrite H. reflexivity. Qed.

Lemma exec0_setidx : forall a i e st s k z, eval st a = EV (VSl s) -> eval st i = EV (VInt k) ->
  eval st e = EV (VInt z) -> 0 <= k < Z.of_nat (s_len s) ->
  exec0 (SSetIdx a i e) st = ONormal (St (locals st) (heap_write (hp st) (s_arr s) (s_off s + Z.to_nat k) [z])).
Proof.
  intros a i e st s k z Ha Hi He Hk. cbn [exec0 exec]. rewrite Ha, Hi, He. cbn [of_eres].
  rewrite idx_in by exact Hk. reflexivity.
Qed.

Lemma exec0_setidx_bool : forall a i e st s k (b : bool), eval st a = EV (VSl s) -> eval st i = EV (VInt k) ->
  eval st e = EV (VBool b) -> 0 <= k < Z.of_nat (s_len s) ->
  exec0 (SSetIdx a i e) st =
  ONormal (St (locals st) (heap_write (hp st) (s_arr s) (s_off s + Z.to_nat k) [if b then 1 else 0])).
Proof.
  intros a i e st s k b Ha Hi He Hk. cbn [exec0 exec]. rewrite Ha, Hi, He. cbn [of_eres].
  rewrite idx_in by exact Hk. reflexivity.
Qed.

Lemma exec0_range_sl : forall i v a body st s, eval st a = EV (VSl s) ->
  exec0 (SRange i v a body) st = range_go (exec0 body) i v (get_sl s) (s_len s) O st.
Proof. intros i v a body st s H. cbn [exec0]. rewrite H. reflexivity. Qed.

Lemma exec0_range_list : forall i v a body st l, eval st a = EV (VList l) ->
  exec0 (SRange i v a body) st = range_go (exec0 body) i v (get_list l) (length l) O st.
Proof. intros i v a body st l H. cbn [exec0]. rewrite H. reflexivity. Qed.

Lemma exec0_range_nil : forall i v a body st, eval st a = EV VNil ->
  exec0 (SRange i v a body) st = ONormal st.
Proof. intros i v a body st H. cbn [exec0]. rewrite H. reflexivity. Qed.

(* one turn of a range *)
Lemma range_go_S : forall run i v get n k st,
  range_go run i v get (S n) k st =
  match run (range_pre i v get k st) with
  | ONormal st3 => range_go run i v get n (S k) st3
  | OContinue st3 => range_go run i v get n (S k) st3
  | OBreak st3 => ONormal st3
  | o => o
  end.
Proof. intros. reflexivity. Qed.

(* ---- frames known through some of their names *)

Lemma lookup_upd : forall x y v e, lookup x (upd y v e) = if String.eqb x y then Some v else lookup x e.
Proof.
  intros x y v e. induction e as [|(z, w) e IH]; cbn [upd lookup].
  - reflexivity.
  - destruct (String.eqb_spec y z) as [->|Hyz]; cbn [lookup].
    + destruct (String.eqb x z); reflexivity.
    + rewrite IH. destruct (String.eqb_spec x z) as [->|Hxz]; [|reflexivity].
      destruct (String.eqb_spec z y) as [->|_]; [congruence|reflexivity].
Qed.

Lemma lookup_upd_same : forall x v e, lookup x (upd x v e) = Some v.
Proof. intros. rewrite lookup_upd, String.eqb_refl. reflexivity. Qed.

Lemma lookup_upd_other : forall x y v e, x <> y -> lookup x (upd y v e) = lookup x e.
Proof. intros x y v e H. rewrite lookup_upd. apply String.eqb_neq in H. rewrite H. reflexivity. Qed.

Lemma upd_upd_same : forall x v w e, upd x v (upd x w e) = upd x v e.
Proof.
  intros x v w e. induction e as [|(z, u) e IH]; cbn [upd].
  - rewrite String.eqb_refl. reflexivity.
  - destruct (String.eqb x z) eqn:E; cbn [upd]; rewrite ?String.eqb_refl, ?E, ?IH; reflexivity.
Qed.

(* [e'] agrees with [e] outside the names [xs] *)
Definition keeps (xs : list string) (e e' : env) : Prop :=
  forall x, ~ In x xs -> lookup x e' = lookup x e.

Lemma keeps_refl : forall xs e, keeps xs e e.
Proof. intros xs e x _. reflexivity. Qed.

Lemma keeps_trans : forall xs e1 e2 e3, keeps xs e1 e2 -> keeps xs e2 e3 -> keeps xs e1 e3.
Proof. intros xs e1 e2 e3 H1 H2 x Hx. rewrite H2, H1 by exact Hx. reflexivity. Qed.

Lemma keeps_upd : forall xs e e' x v, In x xs -> keeps xs e e' -> keeps xs e (upd x v e').
Proof.
  intros xs e e' x v Hx H y Hy. rewrite lookup_upd_other; [apply H; exact Hy|].
  intros ->. contradiction.
Qed.

Lemma keeps_incl : forall xs ys e e', incl xs ys -> keeps xs e e' -> keeps ys e e'.
Proof. intros xs ys e e' Hi H x Hx. apply H. intros Hin. apply Hx, Hi, Hin. Qed.

Lemma keeps_lookup : forall xs e e' x v, keeps xs e e' -> ~ In x xs -> lookup x e = Some v -> lookup x e' = Some v.
Proof. intros xs e e' x v H Hx Hl. rewrite H by exact Hx. exact Hl. Qed.
