(* What an Ok of the cutting-planes whole-run judge (Judge/J24.v) means. *)
From Coq Require Import List ZArith Bool String Lia.
From GS Require Import Spec.Base Spec.PB Judge.Sx Judge.JCommon Model.PBNorm Model.CP Model.CPSearch Model.SearchPB
     Judge.J21 Judge.J24.
From GS Require Import Proofs.CPSearch Proofs.SearchPB Proofs.TraceSound.
Import ListNotations.
Open Scope Z_scope.

Lemma pfinish_trace_replay : forall P n units r vd m tr nsn a b c,
  pfinish_trace P n units r vd m tr nsn = Ok [a; b; c] ->
  exists ks cf, replay_pb P n units ks = Some cf /\
    ((c = 1 /\ vd = 1 /\ cf = PFinal (PSat m)) \/
     (c = 2 /\ vd = 2 /\ cf = PFinal PUnsat) \/
     (c = 0 /\ tr = true /\ exists s, cf = PRunning s)).
Proof.
  intros P n units r vd m tr nsn a b c H. unfold pfinish_trace in H.
  destruct r as [k i|cf cmds]; [discriminate|].
  destruct (replay_pb P n units (rev cmds)) as [cf'|] eqn:Er; [|discriminate].
  exists (rev cmds), cf'. split; [exact Er|].
  destruct cf as [s|[ma|]|]; destruct cf' as [s'|[mb|]|]; try discriminate.
  - destruct tr; [|discriminate]. injection H as _ _ Hc. right. right. split; [auto|]. split; [reflexivity|]. eexists; reflexivity.
  - destruct ((vd =? 1) && eqb_bools ma m && eqb_bools mb m) eqn:E; [|discriminate].
    apply andb_prop in E. destruct E as [E E3]. apply andb_prop in E. destruct E as [E1 E2].
    apply Z.eqb_eq in E1. apply eqb_bools_eq in E3. injection H as _ _ Hc. left. subst. auto.
  - destruct (vd =? 2) eqn:E; [|discriminate]. apply Z.eqb_eq in E. injection H as _ _ Hc. right. left. subst. auto.
Qed.

Lemma pfinish_trace_unsat : forall P n units r vd m tr nsn a b,
  pfinish_trace P n units r vd m tr nsn = Ok [a; b; 2] ->
  vd = 2 /\ forall m' : model, sat_problem m' P = false.
Proof.
  intros P n units r vd m tr nsn a b H.
  destruct (pfinish_trace_replay _ _ _ _ _ _ _ _ _ _ _ H) as [ks [cf [Hr [[Hc _]|[[_ [Hv Hcf]]|[Hc _]]]]]]; try discriminate.
  split; [exact Hv|]. subst cf. exact (replay_pb_unsat P n units ks Hr).
Qed.

Lemma pfinish_trace_sat : forall P n units r vd m tr nsn a b,
  pvars_inb n P = true ->
  pfinish_trace P n units r vd m tr nsn = Ok [a; b; 1] ->
  vd = 1 /\ List.length m = n /\ sat_problem m P = true.
Proof.
  intros P n units r vd m tr nsn a b Hv H.
  destruct (pfinish_trace_replay _ _ _ _ _ _ _ _ _ _ _ H) as [ks [cf [Hr [[_ [Hvd Hcf]]|[[Hc _]|[Hc _]]]]]]; try discriminate.
  split; [exact Hvd|]. subst cf. exact (replay_pb_sat P n units ks m Hv Hr).
Qed.
