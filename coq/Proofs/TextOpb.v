(* solver.ParseOPB reads back every layout that [render_opb_b] writes and the
   texts of Problem.PBString / Solver.PBString. *)
From Coq Require Import List ZArith Bool NArith String Ascii Lia Arith.
From GS Require Import Spec.Base Spec.PB Spec.Solver Model.Text Model.TextPrint
  Proofs.TextNum Proofs.TextLex.
Import ListNotations.
Open Scope Z_scope.

Ltac app_norm :=
  cbn [tok list_ascii_of_string];
  repeat (rewrite <- app_assoc || rewrite <- app_comm_cons); cbn [app].

(* ------------------------------------------------------------------ *)
(* what ParseOPB calls NbVars: the highest variable mentioned *)

Fixpoint tmv (ts : list term) : Z :=
  match ts with [] => 0 | t :: r => Z.max (Z.abs (snd t)) (tmv r) end.

Definition cost_maxvar (c : option cost) : Z :=
  match c with Some ts => tmv ts | None => 0 end.

Fixpoint cs_maxvar (cs : list uc) : Z :=
  match cs with [] => 0 | c :: r => Z.max (tmv (u_terms c)) (cs_maxvar r) end.

Definition opb_nbvars (cs : list uc) (cost : option cost) : Z :=
  Z.max (cost_maxvar cost) (cs_maxvar cs).

Lemma tmv_nonneg : forall ts, 0 <= tmv ts.
Proof. induction ts as [|t r IH]; simpl; lia. Qed.

Lemma cs_maxvar_nonneg : forall cs, 0 <= cs_maxvar cs.
Proof. induction cs as [|c r IH]; simpl; [lia|]. pose proof (tmv_nonneg (u_terms c)). lia. Qed.

Lemma cs_maxvar_app : forall a b, cs_maxvar (a ++ b) = Z.max (cs_maxvar a) (cs_maxvar b).
Proof.
  induction a as [|c a IH]; intros b; simpl.
  - pose proof (cs_maxvar_nonneg b). lia.
  - rewrite IH. lia.
Qed.

(* ------------------------------------------------------------------ *)
(* tokens of a term *)

Lemma gtok_var_tok : forall l, gtok (var_tok l).
Proof.
  intros l. unfold var_tok. apply gtok_app; [destruct (l <? 0); reflexivity|].
  apply gtok_print_Zl.
Qed.

Lemma atoi_var_tok : forall l, atoi (var_tok l) = None.
Proof. intros l. unfold var_tok. destruct (l <? 0); reflexivity. Qed.

Lemma var_prefix_var_tok : forall l, var_prefix (var_tok l) = true.
Proof.
  intros l. unfold var_tok. pose proof (print_Zl_nonempty (Z.abs l)) as H.
  destruct (print_Zl (Z.abs l)) as [|c r]; [congruence|].
  destruct (l <? 0); reflexivity.
Qed.

Lemma var_tok_long : forall l, Nat.ltb (List.length (var_tok l)) 2 = false.
Proof.
  intros l. unfold var_tok. pose proof (print_Zl_nonempty (Z.abs l)) as H.
  destruct (print_Zl (Z.abs l)) as [|c r]; [congruence|].
  destruct (l <? 0); reflexivity.
Qed.

Lemma opb_lit_var_tok : forall l, opb_lit (var_tok l) = Some (l, Z.abs l).
Proof.
  intros l. unfold var_tok. destruct (l <? 0) eqn:E.
  - apply Z.ltb_lt in E. cbn [tok list_ascii_of_string app opb_lit skipn].
    change (Ascii.eqb "~" "~") with true. cbv iota.
    rewrite atoi_print_Zl. cbn [option_map]. do 2 f_equal. lia.
  - apply Z.ltb_ge in E. cbn [tok list_ascii_of_string app opb_lit skipn].
    change (Ascii.eqb "x" "~") with false. cbv iota.
    rewrite atoi_print_Zl. cbn [option_map]. do 2 f_equal. lia.
Qed.

Definition coef_tok (plus : bool) (w : Z) : bytes := (if plus then tok "+" else []) ++ print_Zl w.

Lemma gtok_coef_tok : forall plus w, gtok (coef_tok plus w).
Proof.
  intros plus w. unfold coef_tok. apply gtok_app; [destruct plus; reflexivity|].
  apply gtok_print_Zl.
Qed.

Lemma atoi_coef_tok : forall plus w, (plus = true -> 0 <= w) -> atoi (coef_tok plus w) = Some w.
Proof.
  intros plus w H. unfold coef_tok. destruct plus.
  - apply atoi_plus_print_Zl. apply H. reflexivity.
  - apply atoi_print_Zl.
Qed.

(* the tokens that may stand for a term / a list of terms *)
Inductive term_toks : term -> list bytes -> Prop :=
| TT_omit : forall l, term_toks (1, l) [var_tok l]
| TT_coef : forall w l plus, (plus = true -> 0 <= w) ->
            term_toks (w, l) [coef_tok plus w; var_tok l].

Inductive terms_toks : list term -> list bytes -> Prop :=
| TS_nil : terms_toks [] []
| TS_cons : forall t r a b, term_toks t a -> terms_toks r b -> terms_toks (t :: r) (a ++ b).

Lemma parse_terms_toks : forall ts toks, terms_toks ts toks ->
  forall nall i nb acc, 0 <= nb ->
  parse_terms nall i toks nb acc = POk (acc ++ ts, Z.max nb (tmv ts)).
Proof.
  intros ts toks H. induction H as [|t r a b Ht Hr IH]; intros nall i nb acc Hnb.
  - cbn [parse_terms tmv]. rewrite app_nil_r. f_equal. f_equal. lia.
  - destruct Ht as [l|w l plus Hp].
    + cbn [app parse_terms]. rewrite atoi_var_tok, var_prefix_var_tok. cbn [negb].
      rewrite opb_lit_var_tok. rewrite IH by lia. cbn [tmv snd].
      rewrite <- app_assoc. cbn [app]. f_equal. f_equal. lia.
    + cbn [app parse_terms]. rewrite atoi_coef_tok by exact Hp.
      rewrite var_prefix_var_tok, var_tok_long. cbn [negb orb].
      rewrite opb_lit_var_tok. rewrite IH by lia. cbn [tmv snd].
      rewrite <- app_assoc. cbn [app]. f_equal. f_equal. lia.
Qed.

Lemma terms_toks_gtok : forall ts toks, terms_toks ts toks -> Forall gtok toks.
Proof.
  intros ts toks H. induction H as [|t r a b Ht Hr IH]; [constructor|].
  apply Forall_app. split; [|exact IH].
  destruct Ht as [l|w l plus Hp].
  - constructor; [apply gtok_var_tok|constructor].
  - constructor; [apply gtok_coef_tok|constructor; [apply gtok_var_tok|constructor]].
Qed.

(* first byte of a term token *)
Definition term_start (c : ascii) : bool :=
  is_digit c || Ascii.eqb c "-" || Ascii.eqb c "+" || Ascii.eqb c "x" || Ascii.eqb c "~".

Lemma term_start_facts : forall c, term_start c = true ->
  Ascii.eqb c "*" = false /\ Ascii.eqb c "m" = false.
Proof.
  intros c H. unfold term_start in H. codes. change (code "m") with 109.
  split; zcases.
Qed.

Lemma coef_tok_start : forall plus w, exists c r, coef_tok plus w = c :: r /\ term_start c = true.
Proof.
  intros plus w. unfold coef_tok. destruct plus.
  - eexists. eexists. split; reflexivity.
  - pose proof (print_Zl_nonempty w) as Hne. pose proof (print_Zl_numchars w) as Hn.
    destruct (print_Zl w) as [|c r]; [congruence|].
    cbn [forallb] in Hn. apply andb_true_iff in Hn. destruct Hn as [Hc _].
    exists c, r. split; [reflexivity|]. unfold term_start. unfold is_numchar in Hc.
    apply orb_true_iff in Hc. destruct Hc as [Hc|Hc]; rewrite Hc; [reflexivity|].
    rewrite orb_true_r. reflexivity.
Qed.

Lemma var_tok_start : forall l, exists c r, var_tok l = c :: r /\ term_start c = true.
Proof.
  intros l. unfold var_tok. destruct (l <? 0); eexists; eexists; split; reflexivity.
Qed.

Lemma terms_toks_start : forall t r toks, terms_toks (t :: r) toks ->
  exists c f0 rest, toks = (c :: f0) :: rest /\ term_start c = true.
Proof.
  intros t r toks H. inversion H as [|t' r' a b Ht Hr]; subst.
  destruct Ht as [l|w l plus Hp].
  - destruct (var_tok_start l) as [c [f0 [E Hc]]]. exists c, f0. eexists.
    split; [cbn [app]; rewrite E; reflexivity|exact Hc].
  - destruct (coef_tok_start plus w) as [c [f0 [E Hc]]]. exists c, f0. eexists.
    split; [cbn [app]; rewrite E; reflexivity|exact Hc].
Qed.

(* ------------------------------------------------------------------ *)
(* one line, at the level of its fields *)

Definition rel_ok (r : rel) : Prop := r = Ge \/ r = Eq.

Lemma opb_line_constr : forall line body toks ts r ktok k nb cs cost,
  line = body ++ tok ";" ->
  fields body = toks ++ [rel_tok r; ktok] ->
  terms_toks ts toks -> ts <> [] -> rel_ok r -> atoi ktok = Some k -> 0 <= nb ->
  opb_line line (nb, cs, cost) = POk (Z.max nb (tmv ts), cs ++ [UC ts r k], cost).
Proof.
  intros line body toks ts r ktok k nb cs cost -> Hf Ht Hne Hr Hk Hnb.
  unfold opb_line. change (tok ";") with [";"%char].
  rewrite last_last, removelast_last. change (Ascii.eqb ";" ";") with true. cbn [negb].
  rewrite Hf.
  destruct ts as [|t0 ts0]; [congruence|].
  destruct (terms_toks_start _ _ _ Ht) as [c [f0 [rest [E Hc]]]].
  destruct (term_start_facts c Hc) as [_ Hm].
  rewrite E. cbn [app]. cbn [leqb tok list_ascii_of_string]. rewrite Hm. cbn [andb].
  change ((c :: f0) :: rest ++ [rel_tok r; ktok]) with (((c :: f0) :: rest) ++ [rel_tok r; ktok]).
  rewrite <- E. rewrite rev_app_distr. cbn [rev app].
  match goal with
  | |- context [match ?X with [] => PErr | _ => _ end] => destruct X as [|t1 rts] eqn:Er
  end.
  { exfalso. apply (f_equal (@rev _)) in Er. rewrite rev_involutive in Er. rewrite E in Er.
    discriminate. }
  assert (Htoks : toks = rev rts ++ [t1]).
  { apply (f_equal (@rev _)) in Er. rewrite rev_involutive in Er. exact Er. }
  clear Er E. subst toks.
  destruct Hr as [->| ->].
  - change (leqb (rel_tok Ge) [">"%char; "="%char]) with true. cbn [orb negb].
    rewrite Hk. rewrite (parse_terms_toks _ _ Ht) by exact Hnb. reflexivity.
  - change (leqb (rel_tok Eq) [">"%char; "="%char]) with false.
    change (leqb (rel_tok Eq) ["="%char]) with true. cbn [orb negb].
    rewrite Hk. rewrite (parse_terms_toks _ _ Ht) by exact Hnb. reflexivity.
Qed.

Lemma opb_line_min : forall line body toks ts nb cs cost,
  line = body ++ tok ";" ->
  fields body = tok "min:" :: toks ->
  terms_toks ts toks -> 0 <= nb ->
  opb_line line (nb, cs, cost) = POk (Z.max nb (tmv ts), cs, Some ts).
Proof.
  intros line body toks ts nb cs cost -> Hf Ht Hnb.
  unfold opb_line. change (tok ";") with [";"%char].
  rewrite last_last, removelast_last. change (Ascii.eqb ";" ";") with true. cbn [negb].
  rewrite Hf. change (leqb (tok "min:") (tok "min:")) with true. cbv iota.
  rewrite (parse_terms_toks _ _ Ht) by exact Hnb. reflexivity.
Qed.

(* ------------------------------------------------------------------ *)
(* the lines that ParseOPB skips *)

Lemma opb_skip_filler : forall (fl : list tline) r st,
  Forall (fun l => filler_line (tok "*") false true (fst l)) fl ->
  opb_lines (map fst fl ++ r) st = opb_lines r st.
Proof.
  induction fl as [|[l e] fl IH]; intros r st H; [reflexivity|].
  inversion H as [|x y Hl Hr]; subst. cbn [fst] in Hl. cbn [map fst app opb_lines].
  destruct Hl as [Hb|[ld [t [Hld [_ [_ ->]]]]]].
  - rewrite trim_space_blank by (apply blanks_fspace; exact Hb). apply IH; exact Hr.
  - cbn [tok list_ascii_of_string app].
    destruct (trim_space_head ld "*"%char (if false then match t with [] => [] | _ => SP :: t end else t)
                (blanks_fspace ld Hld) eq_refl) as [t' Et].
    cbv iota in Et. rewrite Et. change (Ascii.eqb "*" "*") with true. cbv iota.
    apply IH. exact Hr.
Qed.

(* a line that strings.TrimSpace gives back, whatever blanks surround it *)
Definition trimmed (b : bytes) : Prop :=
  forall ld tr, forallb is_fspace ld = true -> forallb is_fspace tr = true ->
                trim_space (ld ++ b ++ tr) = b.

Lemma trimmed_intro : forall c0 r0 body x,
  c0 :: r0 = body ++ [x] -> is_fspace c0 = false -> is_fspace x = false -> trimmed (c0 :: r0).
Proof.
  intros c0 r0 body x E Hc Hx ld tr Hld Htr. destruct body as [|b1 body].
  - cbn [app] in E. injection E as -> ->. apply trim_space_single; assumption.
  - cbn [app] in E. injection E as -> ->. apply trim_space_core; assumption.
Qed.

Lemma trimmed_self : forall b, trimmed b -> trim_space b = b.
Proof.
  intros b H. specialize (H [] [] eq_refl eq_refl). cbn [app] in H. rewrite app_nil_r in H. exact H.
Qed.

Lemma opb_lines_step_gen : forall ld tr c0 l r st st',
  trimmed (c0 :: l) -> forallb is_fspace ld = true -> forallb is_fspace tr = true ->
  Ascii.eqb c0 "*" = false ->
  opb_line (c0 :: l) st = POk st' ->
  opb_lines ((ld ++ (c0 :: l) ++ tr) :: r) st = opb_lines r st'.
Proof.
  intros ld tr c0 l r st st' Ht Hld Htr Hc H. cbn [opb_lines]. rewrite (Ht ld tr Hld Htr).
  cbv zeta. rewrite Hc, H. reflexivity.
Qed.

Lemma opb_lines_step : forall c0 l r st st',
  trimmed (c0 :: l) ->
  Ascii.eqb c0 "*" = false ->
  opb_line (c0 :: l) st = POk st' ->
  opb_lines ((c0 :: l) :: r) st = opb_lines r st'.
Proof.
  intros c0 l r st st' Ht Hc H.
  pose proof (opb_lines_step_gen [] [] c0 l r st st' Ht eq_refl eq_refl Hc H) as E.
  cbn [app] in E. rewrite app_nil_r in E. exact E.
Qed.

Lemma term_start_nonspace : forall c, term_start c = true -> is_fspace c = false.
Proof. intros c H. unfold term_start in H. codes. zcases. Qed.

(* ------------------------------------------------------------------ *)
(* rendered terms *)

Lemma render_term_spec : forall first t lay,
  let ps := fst (render_term first t lay) in
  good_pairs ps /\ Forall (fun p => forallb is_blank (snd p) = true) ps /\
  term_toks t (map fst ps).
Proof.
  intros first [w l] lay. unfold render_term. destruct (next lay) as [k l1].
  destruct ((w =? 1) && Nat.eqb (Nat.modulo k 3) 2) eqn:E.
  - apply andb_true_iff in E. destruct E as [E _]. apply Z.eqb_eq in E. subst w.
    pose proof (sep1_gsep l1) as G. destruct (sep1_inline l1) as [B _].
    destruct (sep1 false l1) as [s l2]. cbn [fst] in *.
    repeat split.
    + constructor; [split; [apply gtok_var_tok|exact G]|constructor].
    + constructor; [exact B|constructor].
    + apply TT_omit.
  - pose proof (sep1_gsep l1) as G1. destruct (sep1_inline l1) as [B1 _].
    destruct (sep1 false l1) as [s1 l2]. cbn [fst] in *.
    pose proof (sep1_gsep l2) as G2. destruct (sep1_inline l2) as [B2 _].
    destruct (sep1 false l2) as [s2 l3]. cbn [fst] in *.
    set (plus := (0 <=? w) && xorb (negb first) (Nat.eqb (Nat.modulo k 3) 1)).
    repeat split.
    + constructor; [split; [apply (gtok_coef_tok plus w)|exact G1]|].
      constructor; [split; [apply gtok_var_tok|exact G2]|constructor].
    + constructor; [exact B1|constructor; [exact B2|constructor]].
    + cbn [map fst]. apply (TT_coef w l plus). intros Hp. unfold plus in Hp.
      apply andb_true_iff in Hp. destruct Hp as [Hp _]. apply Z.leb_le. exact Hp.
Qed.

Lemma render_terms_spec : forall ts first lay,
  let ps := fst (render_terms first ts lay) in
  good_pairs ps /\ Forall (fun p => forallb is_blank (snd p) = true) ps /\
  terms_toks ts (map fst ps).
Proof.
  induction ts as [|t r IH]; intros first lay.
  - cbn. repeat split; constructor.
  - cbn [render_terms]. pose proof (render_term_spec first t lay) as Ht.
    destruct (render_term first t lay) as [p l1]. cbn [fst] in Ht.
    specialize (IH false l1). destruct (render_terms false r l1) as [q l2]. cbn [fst] in *.
    destruct Ht as [T1 [T2 T3]]. destruct IH as [I1 [I2 I3]]. repeat split.
    + apply good_pairs_app; assumption.
    + apply Forall_app. split; assumption.
    + rewrite map_app. apply TS_cons; assumption.
Qed.

Definition wf_uc (c : uc) : Prop := rel_ok (u_rel c) /\ u_terms c <> [].

Lemma flat_start : forall ps c f0 rest,
  map fst ps = (c :: f0) :: rest -> exists tl0, flat ps = c :: tl0.
Proof.
  intros ps c f0 rest H. destruct ps as [|[t s] ps]; [discriminate|].
  cbn [map fst] in H. injection H as Ht _. subst t.
  unfold flat. cbn [map List.concat fst snd app]. eexists. reflexivity.
Qed.

Lemma gtok_rel_tok : forall r, gtok (rel_tok r).
Proof. intros r. destruct r; split; try discriminate; reflexivity. Qed.

(* a rendered constraint line *)
Lemma render_constr_spec : forall c lay nb cs cost, wf_uc c -> 0 <= nb ->
  let b := fst (render_constr c lay) in
  clean b /\
  (exists c0 r0, b = c0 :: r0 /\ Ascii.eqb c0 "*" = false /\ trimmed (c0 :: r0)) /\
  opb_line b (nb, cs, cost) = POk (Z.max nb (tmv (u_terms c)), cs ++ [c], cost).
Proof.
  intros [ts r k] lay nb cs cost [Hr Hne] Hnb. cbn [u_terms u_rel u_rhs] in *.
  unfold render_constr. cbn [u_terms u_rel u_rhs].
  pose proof (render_terms_spec ts true lay) as Hts.
  destruct (render_terms true ts lay) as [ps l1]. cbn [fst] in Hts.
  destruct Hts as [G [B T]].
  pose proof (sep1_gsep l1) as Gs. destruct (sep1_inline l1) as [Bs _].
  destruct (sep1 false l1) as [s l2]. cbn [fst] in *.
  destruct (next l2) as [kk l3].
  pose proof (sep0'_inline l3) as Be. destruct (sep0' l3) as [e l4]. cbn [fst] in *.
  set (ktok := (if Nat.odd kk && (0 <=? k) then tok "+" else []) ++ print_Zl k).
  assert (Hk : atoi ktok = Some k).
  { apply (atoi_coef_tok (Nat.odd kk && (0 <=? k)) k). intros H.
    apply andb_true_iff in H. destruct H as [_ H]. apply Z.leb_le. exact H. }
  assert (Gk : gtok ktok) by apply (gtok_coef_tok (Nat.odd kk && (0 <=? k)) k).
  set (body := flat ps ++ rel_tok r ++ s ++ ktok ++ e).
  assert (Hline : flat ps ++ rel_tok r ++ s
                  ++ (if Nat.odd kk && (0 <=? k) then tok "+" else []) ++ print_Zl k
                  ++ e ++ tok ";" = body ++ tok ";").
  { unfold body, ktok. rewrite <- !app_assoc. reflexivity. }
  rewrite Hline.
  assert (Hf : fields body = map fst ps ++ [rel_tok r; ktok]).
  { unfold body. rewrite fields_flat by exact G.
    rewrite fields_tok_seps by (try exact Gs; apply gtok_rel_tok).
    rewrite fields_tok_trail by (try exact Gk; apply blanks_fspace; exact Be).
    reflexivity. }
  destruct ts as [|t0 ts0]; [congruence|].
  destruct (terms_toks_start _ _ _ T) as [c0 [f0 [rest [E Hc]]]].
  destruct (flat_start ps c0 f0 rest E) as [tl0 Efl].
  destruct (term_start_facts c0 Hc) as [Hstar _].
  repeat split.
  - unfold body. apply clean_app; [|reflexivity]. apply clean_app; [apply good_pairs_clean; assumption|].
    apply clean_app; [apply clean_graph; apply gtok_rel_tok|].
    apply clean_app; [apply clean_blanks; exact Bs|].
    apply clean_app; [apply clean_graph; apply Gk|apply clean_blanks; exact Be].
  - assert (Eb : body ++ tok ";" = c0 :: (tl0 ++ rel_tok r ++ s ++ ktok ++ e) ++ tok ";").
    { unfold body. rewrite Efl. reflexivity. }
    exists c0. eexists. split; [exact Eb|]. split; [exact Hstar|].
    apply (trimmed_intro c0 _ body ";"%char); [symmetry; exact Eb| |reflexivity].
    apply term_start_nonspace. exact Hc.
  - apply (opb_line_constr _ body (map fst ps) (t0 :: ts0) r ktok k); auto.
Qed.

Lemma render_min_spec : forall ts lay nb cs cost, 0 <= nb ->
  let b := fst (render_min ts lay) in
  clean b /\
  (exists r0, b = "m"%char :: r0 /\ trimmed ("m"%char :: r0)) /\
  opb_line b (nb, cs, cost) = POk (Z.max nb (tmv ts), cs, Some ts).
Proof.
  intros ts lay nb cs cost Hnb. unfold render_min.
  pose proof (sep1_gsep lay) as Gs. destruct (sep1_inline lay) as [Bs _].
  destruct (sep1 false lay) as [s l1]. cbn [fst] in *.
  pose proof (render_terms_spec ts true l1) as Hts.
  destruct (render_terms true ts l1) as [ps l2]. cbn [fst] in *.
  destruct Hts as [G [B T]].
  repeat split.
  - apply clean_app; [reflexivity|]. apply clean_app; [apply clean_blanks; exact Bs|].
    apply clean_app; [apply good_pairs_clean; assumption|reflexivity].
  - eexists. split; [reflexivity|].
    apply (trimmed_intro "m"%char _ (tok "min:" ++ s ++ flat ps) ";"%char); try reflexivity.
    cbn [tok list_ascii_of_string app]. rewrite <- !app_assoc. reflexivity.
  - apply (opb_line_min _ (tok "min:" ++ s ++ flat ps) (map fst ps) ts).
    + rewrite <- !app_assoc. reflexivity.
    + rewrite fields_tok_seps by (first [exact Gs | split; [discriminate|reflexivity]]).
      rewrite <- (app_nil_r (flat ps)), fields_flat by exact G. rewrite app_nil_r. reflexivity.
    + exact T.
    + exact Hnb.
Qed.

(* ------------------------------------------------------------------ *)
(* the whole file *)

Lemma render_constrs_spec : forall cs lay nb acc cost r,
  Forall wf_uc cs -> 0 <= nb ->
  clean_lines (fst (render_constrs cs lay)) /\
  opb_lines (map fst (fst (render_constrs cs lay)) ++ r) (nb, acc, cost)
  = opb_lines r (Z.max nb (cs_maxvar cs), acc ++ cs, cost).
Proof.
  induction cs as [|c cs IH]; intros lay nb acc cost r Hwf Hnb.
  - cbn [render_constrs fst map app cs_maxvar]. rewrite app_nil_r. split; [constructor|].
    f_equal. f_equal. f_equal. lia.
  - inversion Hwf as [|x y Hc Hcs]; subst. cbn [render_constrs].
    pose proof (gen_filler_spec (tok "*") false true lay) as Hfl.
    destruct (gen_filler (tok "*") false true lay) as [fl l1]. cbn [fst] in Hfl.
    pose proof (sep0_inline l1) as Hld. destruct (sep0 l1) as [ld la]. cbn [fst] in Hld.
    pose proof (render_constr_spec c la nb acc cost Hc Hnb) as Hb.
    destruct (render_constr c la) as [b l2]. cbn [fst] in Hb.
    destruct Hb as [Hclean [[c0 [r0 [Eb [Hstar Htrim]]]] Hline]].
    pose proof (sep0_inline l2) as Htr. destruct (sep0 l2) as [tr lb]. cbn [fst] in Htr.
    destruct (next lb) as [e l3].
    specialize (IH l3 (Z.max nb (tmv (u_terms c))) (acc ++ [c]) cost r Hcs ltac:(lia)).
    destruct (render_constrs cs l3) as [rest l4]. cbn [fst] in *.
    destruct IH as [IH1 IH2]. split.
    + apply Forall_app. split.
      * apply Forall_forall. intros l Hl. rewrite Forall_forall in Hfl.
        apply (filler_line_clean (tok "*") false true); [reflexivity|apply Hfl; exact Hl].
      * constructor; [|exact IH1]. cbn [fst].
        apply clean_app; [apply clean_blanks; exact Hld|].
        apply clean_app; [exact Hclean|apply clean_blanks; exact Htr].
    + rewrite map_app, <- app_assoc, opb_skip_filler by exact Hfl.
      cbn [map fst app]. rewrite Eb in Hline |- *.
      rewrite (opb_lines_step_gen ld tr c0 r0 _ _ _ Htrim (blanks_fspace _ Hld)
                 (blanks_fspace _ Htr) Hstar Hline).
      etransitivity; [exact IH2|].
      cbn [cs_maxvar]. rewrite <- app_assoc. cbn [app]. f_equal. f_equal. f_equal. lia.
Qed.

Definition wf_opb (P : ostate) : Prop := let '(_, cs, _) := P in Forall wf_uc cs.

Lemma filler_clean_lines : forall pre spaced leadok fl,
  forallb is_print pre = true ->
  Forall (fun l => filler_line pre spaced leadok (fst l)) fl -> clean_lines fl.
Proof.
  intros pre spaced leadok fl Hp H. apply Forall_forall. intros l Hl. rewrite Forall_forall in H.
  apply (filler_line_clean pre spaced leadok); [exact Hp|apply H; exact Hl].
Qed.

Lemma opb_header_comment_clean : forall n m, clean (opb_header_comment n m).
Proof.
  intros n m. unfold opb_header_comment.
  apply clean_app; [reflexivity|]. apply clean_app; [apply clean_graph; apply gtok_print_Zl|].
  apply clean_app; [reflexivity|apply clean_graph; apply gtok_print_Zl].
Qed.

Theorem C13_opb_b : forall lay n cs cost,
  wf_opb (n, cs, cost) ->
  lines_short (render_opb_b lay (n, cs, cost)) ->
  parse_opb_r (render_opb_b lay (n, cs, cost)) = POk (opb_nbvars cs cost, cs, cost).
Proof.
  intros lay n cs cost Hwf. unfold render_opb_b.
  destruct (next lay) as [k0 la]. destruct (next la) as [e0 lb].
  pose proof (gen_filler_spec (tok "*") false true lb) as Hfl1.
  destruct (gen_filler (tok "*") false true lb) as [fl1 l1]. cbn [fst] in Hfl1.
  set (hdr := if Nat.odd k0
              then [(opb_header_comment n (Z.of_nat (List.length cs)), Nat.odd e0)] else []).
  (* the optional "min:" line *)
  assert (Hmin : exists minl l2,
            (match cost with
             | None => ([], l1)
             | Some ts => let (ld, lc0) := sep0 l1 in
                          let (b, lc) := render_min ts lc0 in
                          let (tr, lc1) := sep0 lc in
                          let (e, ld') := next lc1 in ([(ld ++ b ++ tr, Nat.odd e)], ld')
             end) = (minl, l2) /\ clean_lines minl /\
            forall r, opb_lines (map fst minl ++ r) (0, [], None)
                      = opb_lines r (cost_maxvar cost, [], cost)).
  { destruct cost as [ts|].
    - pose proof (sep0_inline l1) as Hld. destruct (sep0 l1) as [ld lc0]. cbn [fst] in Hld.
      pose proof (render_min_spec ts lc0 0 [] None ltac:(lia)) as Hm.
      destruct (render_min ts lc0) as [b lc]. cbn [fst] in Hm.
      destruct Hm as [Hc [[r0 [Eb Htrim]] Hl]].
      pose proof (sep0_inline lc) as Htr. destruct (sep0 lc) as [tr lc1]. cbn [fst] in Htr.
      destruct (next lc1) as [e ld'].
      eexists. eexists. split; [reflexivity|]. split.
      + constructor; [|constructor]. cbn [fst].
        apply clean_app; [apply clean_blanks; exact Hld|].
        apply clean_app; [exact Hc|apply clean_blanks; exact Htr].
      + intros r. cbn [map fst app]. rewrite Eb in Hl |- *.
        etransitivity; [exact (opb_lines_step_gen ld tr "m"%char r0 r _ _ Htrim
                                 (blanks_fspace _ Hld) (blanks_fspace _ Htr) eq_refl Hl)|].
        cbn [cost_maxvar]. pose proof (tmv_nonneg ts). f_equal. f_equal. f_equal. lia.
    - eexists. eexists. split; [reflexivity|]. split; [constructor|]. intros r. reflexivity. }
  destruct Hmin as [minl [l2 [Emin [Cmin Hmin]]]]. rewrite Emin.
  assert (Hcm : 0 <= cost_maxvar cost) by (destruct cost; [apply tmv_nonneg|simpl; lia]).
  pose proof (fun r => render_constrs_spec cs l2 (cost_maxvar cost) [] cost r Hwf Hcm) as Hbody.
  destruct (render_constrs cs l2) as [body l3]. cbn [fst] in Hbody.
  pose proof (gen_filler_spec (tok "*") false true l3) as Hfl2.
  destruct (gen_filler (tok "*") false true l3) as [fl2 l4]. cbn [fst] in Hfl2.
  destruct (next l4) as [o l5]. intros Hshort.
  destruct (Hbody (map fst fl2)) as [Cbody Hb2].
  assert (Hclean : clean_lines (hdr ++ fl1 ++ minl ++ body ++ fl2)).
  { repeat (apply Forall_app; split).
    - unfold hdr. destruct (Nat.odd k0); [|constructor].
      constructor; [apply opb_header_comment_clean|constructor].
    - apply (filler_clean_lines (tok "*") false true); [reflexivity|exact Hfl1].
    - exact Cmin.
    - exact Cbody.
    - apply (filler_clean_lines (tok "*") false true); [reflexivity|exact Hfl2]. }
  unfold parse_opb_r. rewrite scan_lines_join by assumption.
  rewrite !map_app.
  assert (Hhdr : forall r st, opb_lines (map fst hdr ++ r) st = opb_lines r st).
  { intros r st. unfold hdr. destruct (Nat.odd k0); [|reflexivity].
    cbn [map fst app opb_lines]. unfold opb_header_comment. cbn [tok list_ascii_of_string app].
    match goal with
    | |- context [trim_space ("*"%char :: ?t)] =>
      destruct (trim_space_head [] "*"%char t eq_refl eq_refl) as [t' Et]
    end.
    cbn [app] in Et. rewrite Et. reflexivity. }
  rewrite Hhdr.
  rewrite opb_skip_filler by exact Hfl1.
  rewrite Hmin.
  match goal with
  | |- match ?X with _ => _ end = _ =>
    assert (HX : X = opb_lines (map fst fl2)
                       (Z.max (cost_maxvar cost) (cs_maxvar cs), [] ++ cs, cost)) by exact Hb2;
    rewrite HX
  end.
  rewrite <- (app_nil_r (map fst fl2)), opb_skip_filler by exact Hfl2. reflexivity.
Qed.

Theorem C13_opb : forall lay n cs cost,
  wf_opb (n, cs, cost) ->
  lines_short (list_ascii_of_string (render_opb lay (n, cs, cost))) ->
  parse_opb (render_opb lay (n, cs, cost)) = Some (opb_nbvars cs cost, cs, cost).
Proof.
  intros lay n cs cost Hwf Hs. unfold parse_opb, render_opb in *.
  rewrite list_ascii_of_string_of_list_ascii in *.
  rewrite C13_opb_b by assumption. reflexivity.
Qed.

(* ------------------------------------------------------------------ *)
(* The Go printers: Problem.PBString and Solver.PBString.              *)

(* the tokens of a list of terms as costFuncString writes them *)
Fixpoint go_toks (first : bool) (ts : list term) : list bytes :=
  match ts with
  | [] => []
  | t :: r => [coef_tok (negb first && (0 <=? fst t)) (fst t); var_tok (snd t)] ++ go_toks false r
  end.

Lemma go_toks_terms : forall ts first, terms_toks ts (go_toks first ts).
Proof.
  induction ts as [|[w l] r IH]; intros first; [constructor|].
  cbn [go_toks fst snd]. apply TS_cons; [|apply IH].
  apply TT_coef. intros H. apply andb_true_iff in H. destruct H as [_ H]. apply Z.leb_le. exact H.
Qed.

Lemma cts_cons_false : forall t r,
  cost_terms_str false (t :: r)
  = SP :: coef_tok (0 <=? fst t) (fst t) ++ SP :: var_tok (snd t) ++ cost_terms_str false r.
Proof.
  intros t r. cbn [cost_terms_str]. unfold term_str, coef_tok.
  destruct (0 <=? fst t); cbn [tok list_ascii_of_string app]; rewrite <- !app_assoc; reflexivity.
Qed.

Lemma cts_cons_true : forall t r,
  cost_terms_str true (t :: r)
  = coef_tok false (fst t) ++ SP :: var_tok (snd t) ++ cost_terms_str false r.
Proof.
  intros t r. cbn [cost_terms_str]. unfold term_str, coef_tok. cbn [app].
  rewrite <- !app_assoc. reflexivity.
Qed.

Lemma cts_false_head : forall r sp rest, is_fspace sp = true ->
  exists c Z', cost_terms_str false r ++ sp :: rest = c :: Z' /\ is_fspace c = true.
Proof.
  intros r sp rest Hsp. destruct r as [|t r].
  - exists sp, rest. split; [reflexivity|exact Hsp].
  - rewrite cts_cons_false. eexists. eexists. split; [reflexivity|reflexivity].
Qed.

Lemma fields_tok_then : forall t c Z' , gtok t -> is_fspace c = true ->
  fields (t ++ c :: Z') = t :: fields (c :: Z').
Proof.
  intros t c Z' Ht Hc. rewrite fields_tok_sep by assumption.
  change (c :: Z') with ([c] ++ Z'). rewrite fields_skip; [reflexivity|].
  cbn [forallb]. rewrite Hc. reflexivity.
Qed.

Lemma cts_false_app : forall t r X,
  cost_terms_str false (t :: r) ++ X
  = [SP] ++ coef_tok (0 <=? fst t) (fst t) ++ SP :: var_tok (snd t) ++ (cost_terms_str false r ++ X).
Proof.
  intros t r X. rewrite cts_cons_false. cbn [app]. f_equal.
  rewrite <- app_assoc. f_equal. cbn [app]. f_equal. rewrite <- app_assoc. reflexivity.
Qed.

Lemma cts_true_app : forall t r X,
  cost_terms_str true (t :: r) ++ X
  = coef_tok false (fst t) ++ SP :: var_tok (snd t) ++ (cost_terms_str false r ++ X).
Proof.
  intros t r X. rewrite cts_cons_true.
  rewrite <- app_assoc. f_equal. cbn [app]. f_equal. rewrite <- app_assoc. reflexivity.
Qed.

Lemma fields_cts_false : forall ts sp rest, is_fspace sp = true ->
  fields (cost_terms_str false ts ++ sp :: rest) = go_toks false ts ++ fields rest.
Proof.
  induction ts as [|t r IH]; intros sp rest Hsp.
  - cbn [cost_terms_str go_toks app]. change (sp :: rest) with ([sp] ++ rest).
    apply fields_skip. cbn [forallb]. rewrite Hsp. reflexivity.
  - destruct (cts_false_head r sp rest Hsp) as [c [Z' [EZ Hc]]].
    rewrite cts_false_app.
    rewrite fields_skip by reflexivity.
    rewrite fields_tok_sep by (try reflexivity; apply gtok_coef_tok).
    rewrite EZ. rewrite fields_tok_then by (try exact Hc; apply gtok_var_tok).
    rewrite <- EZ, IH by exact Hsp. reflexivity.
Qed.

Lemma fields_cts_true : forall ts sp rest, is_fspace sp = true ->
  fields (cost_terms_str true ts ++ sp :: rest) = go_toks true ts ++ fields rest.
Proof.
  intros ts sp rest Hsp. destruct ts as [|t r].
  - cbn [cost_terms_str go_toks app]. change (sp :: rest) with ([sp] ++ rest).
    apply fields_skip. cbn [forallb]. rewrite Hsp. reflexivity.
  - destruct (cts_false_head r sp rest Hsp) as [c [Z' [EZ Hc]]].
    rewrite cts_true_app.
    rewrite fields_tok_sep by (try reflexivity; apply gtok_coef_tok).
    rewrite EZ. rewrite fields_tok_then by (try exact Hc; apply gtok_var_tok).
    rewrite <- EZ, fields_cts_false by exact Hsp. reflexivity.
Qed.

Lemma clean_cts : forall ts first, clean (cost_terms_str first ts).
Proof.
  induction ts as [|t r IH]; intros first; [reflexivity|].
  cbn [cost_terms_str]. apply clean_app; [|apply clean_app; [|apply IH]].
  - destruct first; [reflexivity|]. destruct (0 <=? fst t); reflexivity.
  - unfold term_str. apply clean_app; [apply clean_graph; apply gtok_print_Zl|].
    apply clean_app; [reflexivity|apply clean_graph; apply gtok_var_tok].
Qed.

(* strings.Join(terms, " +") is costFuncString's layout when no coefficient
   but the first is negative *)
Definition tail_nonneg (ts : list term) : Prop := Forall (fun t => 0 <= fst t) (tl ts).

Lemma join_plus_false : forall r, Forall (fun t : term => 0 <= fst t) r ->
  List.concat (map (fun t => tok " +" ++ term_str t) r) = cost_terms_str false r.
Proof.
  induction r as [|t r IH]; intros H; [reflexivity|].
  inversion H as [|x y Ht Hr]; subst. cbn [map List.concat cost_terms_str].
  replace (0 <=? fst t) with true by (symmetry; apply Z.leb_le; exact Ht).
  rewrite IH by exact Hr. rewrite <- app_assoc. reflexivity.
Qed.

Lemma join_cons_concat : forall sep x r,
  join sep (x :: r) = x ++ List.concat (map (fun y => sep ++ y) r).
Proof.
  intros sep x r. revert x. induction r as [|y r IH]; intros x.
  - cbn. rewrite app_nil_r. reflexivity.
  - change (join sep (x :: y :: r)) with (x ++ sep ++ join sep (y :: r)).
    rewrite IH. cbn [map List.concat]. rewrite <- !app_assoc. reflexivity.
Qed.

Lemma join_plus_cost : forall ts, tail_nonneg ts ->
  join (tok " +") (map term_str ts) = cost_terms_str true ts.
Proof.
  intros ts H. destruct ts as [|t r]; [reflexivity|].
  cbn [map]. rewrite join_cons_concat. rewrite map_map.
  unfold tail_nonneg in H. cbn [tl] in H. rewrite (join_plus_false r H).
  cbn [cost_terms_str app]. reflexivity.
Qed.

(* a constraint line as the Go printers write it *)
Definition go_item := (list term * rel * Z)%type.
Definition item_uc (it : go_item) : uc := let '(ts, r, k) := it in UC ts r k.
Definition item_line (it : go_item) : bytes :=
  let '(ts, r, k) := it in
  cost_terms_str true ts ++ SP :: rel_tok r ++ SP :: print_Zl k ++ tok " ;".
Definition wf_item (it : go_item) : Prop := let '(ts, r, k) := it in ts <> [] /\ rel_ok r.

Lemma item_line_spec : forall it nb cs cost, wf_item it -> 0 <= nb ->
  clean (item_line it) /\
  (exists c0 r0, item_line it = c0 :: r0 /\ Ascii.eqb c0 "*" = false /\ trimmed (c0 :: r0)) /\
  opb_line (item_line it) (nb, cs, cost)
  = POk (Z.max nb (tmv (u_terms (item_uc it))), cs ++ [item_uc it], cost).
Proof.
  intros [[ts r] k] nb cs cost [Hne Hr] Hnb. cbn [item_line item_uc u_terms].
  repeat split.
  - apply clean_app; [apply clean_cts|].
    change (SP :: rel_tok r ++ SP :: print_Zl k ++ tok " ;")
      with ([SP] ++ rel_tok r ++ [SP] ++ print_Zl k ++ tok " ;").
    apply clean_app; [reflexivity|]. apply clean_app; [apply clean_graph; apply gtok_rel_tok|].
    apply clean_app; [reflexivity|]. apply clean_app; [apply clean_graph; apply gtok_print_Zl|].
    reflexivity.
  - destruct ts as [|t ts]; [congruence|].
    destruct (coef_tok_start false (fst t)) as [c0 [f0 [E Hc]]].
    destruct (term_start_facts c0 Hc) as [Hs _].
    set (X := (f0 ++ SP :: var_tok (snd t) ++ cost_terms_str false ts)
              ++ SP :: rel_tok r ++ SP :: print_Zl k ++ [SP]).
    assert (Hform : cost_terms_str true (t :: ts) ++ SP :: rel_tok r ++ SP :: print_Zl k ++ tok " ;"
                    = (c0 :: X) ++ [";"%char]).
    { unfold X. rewrite cts_cons_true, E. app_norm. reflexivity. }
    exists c0, (X ++ [";"%char]). split; [exact Hform|]. split; [exact Hs|].
    apply (trimmed_intro c0 _ (c0 :: X) ";"%char);
      [reflexivity|apply term_start_nonspace; exact Hc|reflexivity].
  - apply (opb_line_constr _ (cost_terms_str true ts ++ SP :: rel_tok r ++ SP :: print_Zl k ++ [SP])
             (go_toks true ts) ts r (print_Zl k) k); auto.
    + app_norm. reflexivity.
    + rewrite fields_cts_true by reflexivity.
      rewrite fields_tok_sep by (try reflexivity; apply gtok_rel_tok).
      rewrite fields_tok_trail by (try reflexivity; apply gtok_print_Zl). reflexivity.
    + apply go_toks_terms.
    + apply atoi_print_Zl.
Qed.

Lemma item_lines_spec : forall items nb acc cost r,
  Forall wf_item items -> 0 <= nb ->
  Forall clean (map item_line items) /\
  opb_lines (map item_line items ++ r) (nb, acc, cost)
  = opb_lines r (Z.max nb (cs_maxvar (map item_uc items)), acc ++ map item_uc items, cost).
Proof.
  induction items as [|it items IH]; intros nb acc cost r Hwf Hnb.
  - cbn [map app cs_maxvar]. rewrite app_nil_r. split; [constructor|].
    f_equal. f_equal. f_equal. lia.
  - inversion Hwf as [|x y Hi His]; subst.
    destruct (item_line_spec it nb acc cost Hi Hnb) as [Hc [[c0 [r0 [E [Hs Htrim]]]] Hl]].
    specialize (IH (Z.max nb (tmv (u_terms (item_uc it)))) (acc ++ [item_uc it]) cost r His ltac:(lia)).
    destruct IH as [IH1 IH2]. split; [constructor; assumption|].
    cbn [map app]. rewrite E in Hl |- *.
    etransitivity; [exact (opb_lines_step c0 r0 _ _ _ Htrim Hs Hl)|].
    etransitivity; [exact IH2|].
    cbn [cs_maxvar]. rewrite <- app_assoc. cbn [app]. f_equal. f_equal. f_equal. lia.
Qed.

Lemma join_lines_false_map : forall ls,
  join_lines false (map (fun l => (l, false)) ls) = List.concat (map (fun l => l ++ [LF]) ls).
Proof.
  induction ls as [|l r IH]; [reflexivity|].
  cbn [map]. change (join_lines false ((l, false) :: map (fun l0 : bytes => (l0, false)) r))
    with (join_lines false ((l, false) :: map (fun l0 : bytes => (l0, false)) r)).
  assert (H : forall x xs, join_lines false ((x, false) :: xs) = x ++ [LF] ++ join_lines false xs).
  { intros x xs. cbn [join_lines]. destruct xs; [cbn [join_lines]; rewrite app_nil_r|]; reflexivity. }
  rewrite H, IH. cbn [List.concat]. rewrite <- app_assoc. reflexivity.
Qed.

Lemma clean_lines_map : forall ls, Forall clean ls -> clean_lines (map (fun l => (l, false)) ls).
Proof.
  intros ls H. unfold clean_lines. rewrite Forall_map. cbn [fst]. exact H.
Qed.

Lemma map_fst_pair : forall ls : list bytes, map fst (map (fun l => (l, false)) ls) = ls.
Proof. intros ls. rewrite map_map. cbn [fst]. apply map_id. Qed.

(* Problem.PBString *)
Definition unit_item (u : lit) : go_item := ([(1, u)], Eq, 1).
Definition clause_item (c : pbc) : go_item := (terms c, Ge, degree c).
(* a unit literal u is read back as the constraint  1 u = 1 *)
Definition unit_uc (u : lit) : uc := UC [(1, u)] Eq 1.

Definition wf_pbc_print (c : pbc) : Prop := terms c <> [] /\ tail_nonneg (terms c).

(* what a trivially UNSAT problem is printed as: 1 x1 >= 2 *)
Definition contradiction_pbc : pbc := PBC [(1, 1)] 2.
Definition contradiction_uc : uc := UC [(1, 1)] Ge 2.

Definition wf_pb_problem (P : pb_problem) : Prop :=
  pp_unsat P = false -> Forall wf_pbc_print (pp_clauses P).

Definition pb_problem_ucs (P : pb_problem) : list uc :=
  if pp_unsat P then [contradiction_uc]
  else map unit_uc (pp_units P) ++ map pbc_uc (pp_clauses P).

Lemma unit_line_item : forall u,
  tok "1 " ++ var_tok u ++ tok " = 1 ;" = item_line (unit_item u).
Proof.
  intros u. cbn [item_line unit_item cost_terms_str]. unfold term_str. cbn [fst snd].
  change (print_Zl 1) with (tok "1"). cbn [rel_tok]. app_norm. reflexivity.
Qed.

Lemma clause_line_item : forall c, tail_nonneg (terms c) ->
  clause_pbstring c = item_line (clause_item c).
Proof.
  intros c H. unfold clause_pbstring. cbn [item_line clause_item]. rewrite join_plus_cost by exact H.
  cbn [rel_tok]. app_norm. reflexivity.
Qed.

Lemma cost_line_spec : forall ts nb cs cost, 0 <= nb ->
  let line := tok "min: " ++ cost_terms_str true ts ++ tok " ;" in
  clean line /\ trimmed line /\
  opb_line line (nb, cs, cost) = POk (Z.max nb (tmv ts), cs, Some ts).
Proof.
  intros ts nb cs cost Hnb. split; [|split].
  - apply clean_app; [reflexivity|]. apply clean_app; [apply clean_cts|reflexivity].
  - cbn [tok list_ascii_of_string app].
    apply (trimmed_intro "m"%char _ (tok "min: " ++ cost_terms_str true ts ++ [SP]) ";"%char);
      try reflexivity.
    cbn [tok list_ascii_of_string app]. rewrite <- !app_assoc. reflexivity.
  - apply (opb_line_min _ (tok "min:" ++ SP :: cost_terms_str true ts ++ [SP]) (go_toks true ts) ts).
    + app_norm. reflexivity.
    + rewrite fields_tok_sep by (first [reflexivity | split; [discriminate|reflexivity]]).
      rewrite fields_cts_true by reflexivity. rewrite app_nil_r. reflexivity.
    + apply go_toks_terms.
    + exact Hnb.
Qed.

Lemma C18_opb_sat_b : forall n units cls cost,
  Forall wf_pbc_print cls ->
  lines_short (print_opb_b (PBProblem n false units cls cost)) ->
  parse_opb_r (print_opb_b (PBProblem n false units cls cost))
  = POk (opb_nbvars (map unit_uc units ++ map pbc_uc cls) cost,
         map unit_uc units ++ map pbc_uc cls, cost).
Proof.
  intros n units cls cost Hwf.
  unfold print_opb_b. cbn [pp_unsat pp_cost pp_units pp_clauses].
  set (items := map unit_item units ++ map clause_item cls).
  set (costl := match cost with
                | None => []
                | Some ts => [tok "min: " ++ cost_terms_str true ts ++ tok " ;"]
                end).
  assert (Htext : cost_func_string cost
                  ++ List.concat (map (fun u => tok "1 " ++ var_tok u ++ tok " = 1 ;" ++ [LF]) units)
                  ++ List.concat (map (fun c => clause_pbstring c ++ [LF]) cls)
                  = join_lines false (map (fun l => (l, false)) (costl ++ map item_line items))).
  { rewrite join_lines_false_map. unfold items. rewrite !map_app, !concat_app, !map_map.
    f_equal; [|f_equal].
    - unfold costl, cost_func_string. destruct cost; [|reflexivity].
      cbn [map List.concat]. rewrite app_nil_r, <- !app_assoc. reflexivity.
    - f_equal. apply map_ext. intros u. rewrite <- unit_line_item, <- !app_assoc. reflexivity.
    - f_equal. apply map_ext_in. intros c Hc. rewrite Forall_forall in Hwf.
      rewrite <- clause_line_item by (apply Hwf; exact Hc). reflexivity. }
  rewrite Htext. intros Hshort.
  assert (Hitems : Forall wf_item items).
  { unfold items. apply Forall_app. split; apply Forall_forall; intros it Hit;
      apply in_map_iff in Hit; destruct Hit as [x [<- Hx]].
    - split; [discriminate|right; reflexivity].
    - rewrite Forall_forall in Hwf. destruct (Hwf x Hx) as [Hne _]. split; [exact Hne|left; reflexivity]. }
  assert (Hcm : 0 <= cost_maxvar cost) by (destruct cost; [apply tmv_nonneg|simpl; lia]).
  destruct (item_lines_spec items (cost_maxvar cost) [] cost [] Hitems Hcm) as [Hcl Hrun].
  assert (Hclean : Forall clean (costl ++ map item_line items)).
  { apply Forall_app. split; [|exact Hcl]. unfold costl. destruct cost as [ts|]; [|constructor].
    constructor; [|constructor]. apply (cost_line_spec ts 0 [] None). lia. }
  unfold parse_opb_r. rewrite scan_lines_join by (try assumption; apply clean_lines_map; exact Hclean).
  rewrite map_fst_pair.
  assert (Hcost : opb_lines (costl ++ map item_line items) (0, [], None)
                  = opb_lines (map item_line items) (cost_maxvar cost, [], cost)).
  { unfold costl. destruct cost as [ts|]; [|reflexivity].
    destruct (cost_line_spec ts 0 [] None ltac:(lia)) as [_ [Htrim Hl]].
    cbn [app]. cbn [tok list_ascii_of_string app] in Hl, Htrim |- *.
    etransitivity; [exact (opb_lines_step "m"%char _ _ _ _ Htrim eq_refl Hl)|].
    cbn [cost_maxvar]. pose proof (tmv_nonneg ts). f_equal. f_equal. f_equal. lia. }
  rewrite Hcost. rewrite <- (app_nil_r (map item_line items)), Hrun.
  cbn [opb_lines app]. unfold opb_nbvars.
  assert (Hucs : map item_uc items = map unit_uc units ++ map pbc_uc cls).
  { unfold items. rewrite map_app, !map_map. reflexivity. }
  rewrite Hucs. reflexivity.
Qed.

Theorem C18_opb_b : forall P,
  wf_pb_problem P -> lines_short (print_opb_b P) ->
  parse_opb_r (print_opb_b P)
  = POk (opb_nbvars (pb_problem_ucs P) (pp_cost P), pb_problem_ucs P, pp_cost P).
Proof.
  intros [n unsat units cls cost] Hwf. unfold wf_pb_problem in Hwf.
  cbn [pp_unsat pp_clauses] in Hwf. unfold pb_problem_ucs. cbn [pp_unsat pp_units pp_clauses pp_cost].
  destruct unsat.
  - change (print_opb_b (PBProblem n true units cls cost))
      with (print_opb_b (PBProblem n false [] [contradiction_pbc] cost)).
    intros Hs. apply (C18_opb_sat_b n [] [contradiction_pbc] cost); [|exact Hs].
    constructor; [|constructor]. split; [discriminate|constructor].
  - apply C18_opb_sat_b. apply Hwf. reflexivity.
Qed.

Theorem C18_opb : forall P,
  wf_pb_problem P -> lines_short (list_ascii_of_string (print_opb P)) ->
  parse_opb (print_opb P)
  = Some (opb_nbvars (pb_problem_ucs P) (pp_cost P), pb_problem_ucs P, pp_cost P).
Proof.
  intros P Hwf Hs. unfold parse_opb, print_opb in *.
  rewrite list_ascii_of_string_of_list_ascii in *.
  rewrite C18_opb_b by assumption. reflexivity.
Qed.

(* the meaning of what is read back *)
Lemma sat_unit_uc : forall m u, sat_uc m (unit_uc u) = lit_val m u.
Proof.
  intros m u. unfold sat_uc, unit_uc. cbn [u_terms u_rel u_rhs lhs]. unfold term_val. cbn [fst snd].
  destruct (lit_val m u); reflexivity.
Qed.

Lemma sat_contradiction_uc : forall m, sat_uc m contradiction_uc = false.
Proof.
  intros m. unfold sat_uc, contradiction_uc. cbn [u_terms u_rel u_rhs lhs]. unfold term_val.
  cbn [fst snd]. destruct (lit_val m 1); reflexivity.
Qed.

Lemma sat_pb_problem_ucs : forall m P,
  sat_uproblem m (pb_problem_ucs P)
  = negb (pp_unsat P) && (forallb (lit_val m) (pp_units P) && sat_problem m (pp_clauses P)).
Proof.
  intros m P. unfold pb_problem_ucs. destruct (pp_unsat P).
  - unfold sat_uproblem. cbn [forallb]. rewrite sat_contradiction_uc. reflexivity.
  - cbn [negb andb]. unfold sat_uproblem, sat_problem. rewrite forallb_app. f_equal.
    + induction (pp_units P) as [|u r IH]; [reflexivity|]. cbn [map forallb].
      rewrite sat_unit_uc, IH. reflexivity.
    + induction (pp_clauses P) as [|c r IH]; [reflexivity|]. cbn [map forallb].
      rewrite sat_pbc_uc, IH. reflexivity.
Qed.

(* ------------------------------------------------------------------ *)
(* Solver.PBString *)

(* the top-level facts of s.model, as the constraints that are read back:
   1 x(i+1) = 1 for a level 1, 1 x(i+1) = 0 for a level -1 *)
Fixpoint facts_items (i : Z) (m : list Z) : list go_item :=
  match m with
  | [] => []
  | v :: r =>
    (if v =? 1 then [([(1, i + 1)], Eq, 1)]
     else if v =? -1 then [([(1, i + 1)], Eq, 0)]
     else [])
    ++ facts_items (i + 1) r
  end.

Definition facts_ucs (m : list Z) : list uc := map item_uc (facts_items 0 m).

Lemma fact_line : forall i k, 0 <= i ->
  tok "1 x" ++ print_Zl (i + 1) ++ tok " = " ++ print_Zl k ++ tok " ;"
  = item_line ([(1, i + 1)], Eq, k).
Proof.
  intros i k Hi. cbn [item_line cost_terms_str]. unfold term_str, var_tok. cbn [fst snd].
  replace (i + 1 <? 0) with false by (symmetry; apply Z.ltb_ge; lia).
  rewrite Z.abs_eq by lia. change (print_Zl 1) with (tok "1"). cbn [rel_tok].
  app_norm. reflexivity.
Qed.

Lemma facts_str_items : forall m i, 0 <= i -> facts_str i m = map item_line (facts_items i m).
Proof.
  induction m as [|v r IH]; intros i Hi; [reflexivity|].
  cbn [facts_str facts_items]. rewrite map_app, IH by lia. f_equal.
  destruct (v =? 1).
  - cbn [map]. rewrite <- (fact_line i 1 Hi). change (print_Zl 1) with (tok "1").
    app_norm. reflexivity.
  - destruct (v =? -1); [|reflexivity].
    cbn [map]. rewrite <- (fact_line i 0 Hi). change (print_Zl 0) with (tok "0").
    app_norm. reflexivity.
Qed.

Lemma facts_items_wf : forall m i, Forall wf_item (facts_items i m).
Proof.
  induction m as [|v r IH]; intros i; [constructor|].
  cbn [facts_items]. apply Forall_app. split; [|apply IH].
  destruct (v =? 1); [constructor; [|constructor]; split; [discriminate|right; reflexivity]|].
  destruct (v =? -1); [constructor; [|constructor]; split; [discriminate|right; reflexivity]|].
  constructor.
Qed.

Lemma join_LF_lines : forall L : list bytes,
  Forall (fun l => l <> []) L ->
  join [LF] L = join_lines true (map (fun l => (l, false)) L).
Proof.
  induction L as [|l r IH]; intros H; [reflexivity|].
  inversion H as [|x y Hl Hr]; subst. destruct r as [|l2 r].
  - cbn [join map join_lines]. destruct l; [congruence|reflexivity].
  - change (join [LF] (l :: l2 :: r)) with (l ++ [LF] ++ join [LF] (l2 :: r)).
    rewrite IH by exact Hr. reflexivity.
Qed.

Lemma prefix_join_lines : forall (P L : list bytes),
  Forall (fun l => l <> []) L ->
  List.concat (map (fun l => l ++ [LF]) P) ++ join [LF] L
  = join_lines (match L with [] => false | _ => true end) (map (fun l => (l, false)) (P ++ L)).
Proof.
  induction P as [|p P IH]; intros L HL.
  - cbn [map List.concat app]. destruct L as [|l L]; [reflexivity|]. apply join_LF_lines. exact HL.
  - cbn [map List.concat app]. rewrite <- app_assoc, IH by exact HL.
    destruct (map (fun l => (l, false)) (P ++ L)) as [|x xs] eqn:E.
    + destruct P; [|discriminate]. destruct L; [|discriminate].
      cbn [join_lines line_end app]. rewrite app_nil_r. reflexivity.
    + cbn [join_lines line_end]. rewrite <- app_assoc. reflexivity.
Qed.

Definition wf_solver_view (S : solver_view) : Prop :=
  Forall wf_pbc_print (sv_orig S ++ sv_learned S).

Definition solver_view_ucs (S : solver_view) : list uc :=
  map pbc_uc (sv_orig S ++ sv_learned S)
  ++ (if sv_unsat S then [contradiction_uc] else [])
  ++ facts_ucs (sv_model S).

(* Solver.PBString writes the cost function as costFuncString does *)
Lemma solver_cost_false : forall r,
  List.concat (map (fun y => [SP] ++ y) (solver_cost_terms false r)) = cost_terms_str false r.
Proof.
  induction r as [|t r IH]; [reflexivity|].
  cbn [solver_cost_terms map List.concat cost_terms_str orb]. rewrite IH.
  destruct (Z.ltb_spec (fst t) 0) as [H|H].
  - replace (0 <=? fst t) with false by (symmetry; apply Z.leb_gt; exact H).
    app_norm. reflexivity.
  - replace (0 <=? fst t) with true by (symmetry; apply Z.leb_le; exact H).
    app_norm. reflexivity.
Qed.

Lemma solver_cost_join : forall ts,
  join [SP] (solver_cost_terms true ts) = cost_terms_str true ts.
Proof.
  intros ts. destruct ts as [|t r]; [reflexivity|].
  cbn [solver_cost_terms]. rewrite join_cons_concat, solver_cost_false.
  cbn [orb cost_terms_str app]. reflexivity.
Qed.

Lemma item_line_nonempty : forall it, wf_item it -> item_line it <> [].
Proof.
  intros it H. destruct (item_line_spec it 0 [] None H ltac:(lia)) as [_ [[c0 [r0 [E _]]] _]].
  rewrite E. discriminate.
Qed.

Theorem C18_solver_opb_b : forall S,
  wf_solver_view S -> lines_short (print_solver_opb_b S) ->
  parse_opb_r (print_solver_opb_b S)
  = POk (opb_nbvars (solver_view_ucs S) (sv_cost S), solver_view_ucs S, sv_cost S).
Proof.
  intros [n unsat orig learned cost model] Hwf. unfold wf_solver_view in Hwf.
  cbn [sv_orig sv_learned] in Hwf.
  unfold print_solver_opb_b, solver_view_ucs, facts_ucs.
  cbn [sv_nbvars sv_unsat sv_orig sv_learned sv_cost sv_model].
  set (citems := if unsat then [(([(1, 1)], Ge, 2) : go_item)] else []).
  set (items := map clause_item (orig ++ learned) ++ citems ++ facts_items 0 model).
  set (meta := tok "* #variable= " ++ print_Zl n ++ tok " #constraint= "
               ++ print_Zl (Z.of_nat (List.length orig)) ++ tok " #learned= "
               ++ print_Zl (Z.of_nat (List.length learned))).
  set (costl := match cost with
                | None => []
                | Some ts => [tok "min: " ++ cost_terms_str true ts ++ tok " ;"]
                end).
  assert (Hitems : Forall wf_item items).
  { unfold items. apply Forall_app. split.
    - apply Forall_forall. intros it Hit. apply in_map_iff in Hit. destruct Hit as [x [<- Hx]].
      rewrite Forall_forall in Hwf. destruct (Hwf x Hx) as [Hne _]. split; [exact Hne|left; reflexivity].
    - apply Forall_app. split; [|apply facts_items_wf]. unfold citems. destruct unsat; [|constructor].
      constructor; [|constructor]. split; [discriminate|left; reflexivity]. }
  assert (Hne : Forall (fun l => l <> []) (map item_line items)).
  { rewrite Forall_map. apply Forall_forall. intros it Hit. apply item_line_nonempty.
    rewrite Forall_forall in Hitems. apply Hitems. exact Hit. }
  assert (Htext :
    (meta ++ [LF])
    ++ match cost with
       | Some ts => tok "min: " ++ join [SP] (solver_cost_terms true ts) ++ tok " ;" ++ [LF]
       | None => []
       end
    ++ join [LF] (map clause_pbstring (orig ++ learned)
                  ++ (if unsat then [tok "1 x1 >= 2 ;"] else []) ++ facts_str 0 model)
    = join_lines (match map item_line items with [] => false | _ => true end)
        (map (fun l => (l, false)) ((meta :: costl) ++ map item_line items))).
  { rewrite <- prefix_join_lines by exact Hne.
    assert (HL : map clause_pbstring (orig ++ learned)
                 ++ (if unsat then [tok "1 x1 >= 2 ;"] else []) ++ facts_str 0 model
                 = map item_line items).
    { unfold items. rewrite (map_app item_line), (map_app item_line), map_map,
        facts_str_items by lia. f_equal; [|f_equal].
      - apply map_ext_in. intros c Hc. rewrite Forall_forall in Hwf.
        apply clause_line_item. apply Hwf. exact Hc.
      - unfold citems. destruct unsat; reflexivity. }
    rewrite HL. rewrite app_assoc. f_equal. cbn [map List.concat]. f_equal.
    unfold costl. destruct cost as [ts|]; [|reflexivity].
    cbn [map List.concat]. rewrite solver_cost_join. rewrite app_nil_r.
    rewrite <- !app_assoc. reflexivity. }
  unfold meta in Htext. rewrite <- !app_assoc in Htext. rewrite <- !app_assoc.
  fold meta in Htext |- *.
  match goal with
  | |- lines_short ?X -> _ =>
    match type of Htext with ?Y = _ => change X with Y end
  end.
  rewrite Htext. intros Hshort.
  assert (Hcm : 0 <= cost_maxvar cost) by (destruct cost; [apply tmv_nonneg|simpl; lia]).
  destruct (item_lines_spec items (cost_maxvar cost) [] cost [] Hitems Hcm) as [Hcl Hrun].
  assert (Hclean : Forall clean ((meta :: costl) ++ map item_line items)).
  { apply Forall_app. split; [|exact Hcl]. constructor.
    - unfold meta. apply clean_app; [reflexivity|].
      apply clean_app; [apply clean_graph; apply gtok_print_Zl|]. apply clean_app; [reflexivity|].
      apply clean_app; [apply clean_graph; apply gtok_print_Zl|]. apply clean_app; [reflexivity|].
      apply clean_graph; apply gtok_print_Zl.
    - unfold costl. destruct cost as [ts|]; [|constructor].
      constructor; [|constructor]. apply (cost_line_spec ts 0 [] None). lia. }
  unfold parse_opb_r. rewrite scan_lines_join by (try assumption; apply clean_lines_map; exact Hclean).
  rewrite map_fst_pair.
  assert (Hhead : opb_lines ((meta :: costl) ++ map item_line items) (0, [], None)
                  = opb_lines (map item_line items) (cost_maxvar cost, [], cost)).
  { cbn [app]. unfold meta at 1. cbn [tok list_ascii_of_string app opb_lines].
    match goal with
    | |- context [trim_space ("*"%char :: ?t)] =>
      destruct (trim_space_head [] "*"%char t eq_refl eq_refl) as [t' Et]
    end.
    cbn [app] in Et. rewrite Et. cbv zeta.
    change (Ascii.eqb "*" "*") with true. cbv iota.
    unfold costl. destruct cost as [ts|]; [|reflexivity].
    destruct (cost_line_spec ts 0 [] None ltac:(lia)) as [_ [Htrim Hl]].
    cbn [app]. cbn [tok list_ascii_of_string app] in Hl, Htrim |- *.
    etransitivity; [exact (opb_lines_step "m"%char _ _ _ _ Htrim eq_refl Hl)|].
    cbn [cost_maxvar]. pose proof (tmv_nonneg ts). f_equal. f_equal. f_equal. lia. }
  rewrite Hhead. rewrite <- (app_nil_r (map item_line items)), Hrun.
  cbn [opb_lines app]. unfold opb_nbvars.
  assert (Hucs : map item_uc items
                 = map pbc_uc (orig ++ learned) ++ (if unsat then [contradiction_uc] else [])
                   ++ map item_uc (facts_items 0 model)).
  { unfold items. rewrite (map_app item_uc), (map_app item_uc), map_map. f_equal. f_equal.
    unfold citems. destruct unsat; reflexivity. }
  rewrite Hucs. reflexivity.
Qed.

Theorem C18_solver_opb : forall S,
  wf_solver_view S -> lines_short (list_ascii_of_string (print_solver_opb S)) ->
  parse_opb (print_solver_opb S)
  = Some (opb_nbvars (solver_view_ucs S) (sv_cost S), solver_view_ucs S, sv_cost S).
Proof.
  intros S Hwf Hs. unfold parse_opb, print_solver_opb in *.
  rewrite list_ascii_of_string_of_list_ascii in *.
  rewrite C18_solver_opb_b by assumption. reflexivity.
Qed.

(* meaning of the facts that are read back *)
Lemma sat_fact_uc : forall m v k, (k = 0 \/ k = 1) ->
  sat_uc m (UC [(1, v)] Eq k) = if k =? 1 then lit_val m v else negb (lit_val m v).
Proof.
  intros m v k Hk. unfold sat_uc. cbn [u_terms u_rel u_rhs lhs]. unfold term_val. cbn [fst snd].
  destruct Hk as [-> | ->]; destruct (lit_val m v); reflexivity.
Qed.
