(* Glue lemmas about the GENERATED shallow translation Gen/GoTypes.v of
   gophersat's literal encoding (solver/types.go), abs/min (solver/solver.go),
   lvlToSignedLvl (solver/watcher.go) and the heap index arithmetic
   (solver/queue.go).

   Robustness: Gen/GoTypes.v is regenerated from the Go sources on every run.
   No proof below looks at how a function is written; every proof is
     go_solve
   which (1) unfolds all go_* functions, (2) normalises every bit / truncated
   operation by a constant (land _ 1, lxor _ 1, lor _ 1, ldiff _ 1, shiftr _ k,
   shiftl _ k, quot, rem) to floor division (/ and mod) with the general lemmas
   of the first section, (3) splits on every comparison under an `if`, and
   (4) calls lia with the euclidean-division preprocessing.  Hence a
   semantically harmless rewrite of the Go source (l%2 -> l&1, 2*x -> x<<1,
   l/2 -> l>>1, swapped if/else, ...) does not break them, and a change of
   what a function computes does. *)
From Coq Require Import ZArith Bool ZifyBool Lia.
From GS Require Import Gen.GoTypes.
Open Scope Z_scope.

Ltac Zify.zify_post_hook ::= Z.to_euclidean_division_equations.

(* ------------------------------------------------------------------ *)
(* General lemmas: bit operations with the constant 1, shifts, and      *)
(* truncated division, expressed with floor division.                   *)
(* ------------------------------------------------------------------ *)

Lemma land_1_r : forall a, Z.land a 1 = a mod 2.
Proof. intros a. change 1 with (Z.ones 1). rewrite Z.land_ones by lia. reflexivity. Qed.

Lemma land_1_l : forall a, Z.land 1 a = a mod 2.
Proof. intros a. rewrite Z.land_comm. apply land_1_r. Qed.

Lemma even_land_1 : forall q, Z.land (2 * q) 1 = 0.
Proof. intros q. rewrite land_1_r. lia. Qed.

Lemma lxor_even_1 : forall q, Z.lxor (2 * q) 1 = 2 * q + 1.
Proof. intros q. symmetry. apply Z.add_nocarry_lxor. apply even_land_1. Qed.

Lemma lxor_odd_1 : forall q, Z.lxor (2 * q + 1) 1 = 2 * q.
Proof.
  intros q. rewrite <- lxor_even_1, Z.lxor_assoc, Z.lxor_nilpotent, Z.lxor_0_r.
  reflexivity.
Qed.

Lemma lxor_1_r : forall a, Z.lxor a 1 = a + 1 - 2 * (a mod 2).
Proof.
  intros a. assert (H : a = 2 * (a / 2) \/ a = 2 * (a / 2) + 1) by lia.
  destruct H as [H|H]; rewrite H at 1.
  - rewrite lxor_even_1. lia.
  - rewrite lxor_odd_1. lia.
Qed.

Lemma lxor_1_l : forall a, Z.lxor 1 a = a + 1 - 2 * (a mod 2).
Proof. intros a. rewrite Z.lxor_comm. apply lxor_1_r. Qed.

Lemma lor_even_1 : forall q, Z.lor (2 * q) 1 = 2 * q + 1.
Proof.
  intros q. rewrite <- Z.lxor_lor by apply even_land_1. apply lxor_even_1.
Qed.

Lemma lor_1_r : forall a, Z.lor a 1 = a + 1 - a mod 2.
Proof.
  intros a. assert (H : a = 2 * (a / 2) \/ a = 2 * (a / 2) + 1) by lia.
  destruct H as [H|H]; rewrite H at 1.
  - rewrite lor_even_1. lia.
  - rewrite <- lor_even_1, <- Z.lor_assoc, Z.lor_diag, lor_even_1. lia.
Qed.

Lemma lor_1_l : forall a, Z.lor 1 a = a + 1 - a mod 2.
Proof. intros a. rewrite Z.lor_comm. apply lor_1_r. Qed.

Lemma ldiff_1_r : forall a, Z.ldiff a 1 = a - a mod 2.
Proof.
  intros a. pose proof (Z.lor_ldiff_and a 1) as H.
  assert (E : Z.land (Z.ldiff a 1) (Z.land a 1) = 0).
  { rewrite (Z.land_comm a 1), Z.land_assoc, Z.land_ldiff. reflexivity. }
  pose proof (Z.add_nocarry_lxor _ _ E) as H1.
  rewrite (Z.lxor_lor _ _ E), H, land_1_r in H1. lia.
Qed.

Lemma shiftr_1 : forall a, Z.shiftr a 1 = a / 2.
Proof. intros a. rewrite Z.shiftr_div_pow2 by lia. reflexivity. Qed.

Lemma shiftl_1 : forall a, Z.shiftl a 1 = 2 * a.
Proof. intros a. rewrite Z.shiftl_mul_pow2 by lia. change (2 ^ 1) with 2. lia. Qed.

Lemma shiftr_2 : forall a, Z.shiftr a 2 = a / 4.
Proof. intros a. rewrite Z.shiftr_div_pow2 by lia. reflexivity. Qed.

Lemma shiftl_2 : forall a, Z.shiftl a 2 = 4 * a.
Proof. intros a. rewrite Z.shiftl_mul_pow2 by lia. change (2 ^ 2) with 4. lia. Qed.

(* Go's / and % truncate; on non-negative dividends they are floor division.
   (lia also knows Z.quot/Z.rem through the post hook; these two conditional
   rewrites are kept because they make the normal form uniform.) *)
Lemma quot_2_nonneg : forall a, 0 <= a -> Z.quot a 2 = a / 2.
Proof. intros a Ha. apply Z.quot_div_nonneg; lia. Qed.

Lemma rem_2_nonneg : forall a, 0 <= a -> Z.rem a 2 = a mod 2.
Proof. intros a Ha. apply Z.rem_mod_nonneg; lia. Qed.

(* the comparisons Go can produce besides < <= == *)
Lemma geb_leb' : forall a b, Z.geb a b = Z.leb b a.
Proof. intros a b. apply Z.geb_leb. Qed.
Lemma gtb_ltb' : forall a b, Z.gtb a b = Z.ltb b a.
Proof. intros a b. apply Z.gtb_ltb. Qed.

#[export] Hint Rewrite land_1_r land_1_l lxor_1_r lxor_1_l lor_1_r lor_1_l ldiff_1_r
  shiftr_1 shiftl_1 shiftr_2 shiftl_2 geb_leb' gtb_ltb' : gobits.
#[export] Hint Rewrite quot_2_nonneg rem_2_nonneg using lia : gobits.

#[export] Hint Unfold go_IntToLit go_IntToVar go_Var_Lit go_Var_Int go_Var_SignedLit
  go_Lit_Var go_Lit_Int go_Lit_IsPositive go_Lit_Negation go_abs go_min
  go_lvlToSignedLvl go_left go_right go_parent : gofuns.

(* ------------------------------------------------------------------ *)
(* The tactic                                                           *)
(* ------------------------------------------------------------------ *)

Ltac go_unfold :=
  cbv beta zeta delta [go_IntToLit go_IntToVar go_Var_Lit go_Var_Int go_Var_SignedLit
    go_Lit_Var go_Lit_Int go_Lit_IsPositive go_Lit_Negation go_abs go_min
    go_lvlToSignedLvl go_left go_right go_parent].

(* case split on the condition c of an `if`: a comparison occurring in it, or
   a boolean variable (a Go bool parameter) *)
Ltac go_case c :=
  match c with
  | context [Z.ltb ?a ?b] => destruct (Z.ltb_spec a b)
  | context [Z.leb ?a ?b] => destruct (Z.leb_spec a b)
  | context [Z.eqb ?a ?b] => destruct (Z.eqb_spec a b)
  | context [?b] => is_var b; match type of b with bool => destruct b end
  end.

Ltac go_split1 :=
  match goal with
  | |- context [if ?c then _ else _] => go_case c
  | H : context [if ?c then _ else _] |- _ => revert H; go_case c; intros
  end; cbn [negb andb orb xorb] in *.

Ltac go_solve :=
  intros; go_unfold; autounfold with gofuns;
  autorewrite with gobits in *;
  repeat go_split1;
  autorewrite with gobits in *;
  repeat split; lia.

(* ------------------------------------------------------------------ *)
(* Literal encoding                                                     *)
(* ------------------------------------------------------------------ *)

Lemma IntToLit_nonneg : forall i, i <> 0 -> 0 <= go_IntToLit i.
Proof. go_solve. Qed.

Lemma Lit_Int_IntToLit : forall i, i <> 0 -> go_Lit_Int (go_IntToLit i) = i.
Proof. go_solve. Qed.

Lemma IntToLit_Lit_Int : forall l, 0 <= l ->
  go_IntToLit (go_Lit_Int l) = l /\ go_Lit_Int l <> 0.
Proof. go_solve. Qed.

Lemma IntToLit_inj : forall i j, i <> 0 -> j <> 0 ->
  go_IntToLit i = go_IntToLit j -> i = j.
Proof.
  intros i j Hi Hj H.
  rewrite <- (Lit_Int_IntToLit i Hi), <- (Lit_Int_IntToLit j Hj), H. reflexivity.
Qed.

Lemma Negation : forall i, i <> 0 ->
  go_Lit_Negation (go_IntToLit i) = go_IntToLit (- i).
Proof. go_solve. Qed.

Lemma Negation_invol : forall l, 0 <= l -> go_Lit_Negation (go_Lit_Negation l) = l.
Proof. go_solve. Qed.

Lemma Negation_neq : forall l, 0 <= l ->
  go_Lit_Negation l <> l /\ 0 <= go_Lit_Negation l.
Proof. go_solve. Qed.

Lemma IsPositive : forall i, i <> 0 -> go_Lit_IsPositive (go_IntToLit i) = (0 <? i).
Proof. go_solve. Qed.

Lemma IsPositive_Lit_Int : forall l, 0 <= l -> go_Lit_IsPositive l = (0 <? go_Lit_Int l).
Proof. go_solve. Qed.

Lemma IsPositive_Negation : forall l, 0 <= l ->
  go_Lit_IsPositive (go_Lit_Negation l) = negb (go_Lit_IsPositive l).
Proof. go_solve. Qed.

Lemma Lit_Var : forall i, i <> 0 -> go_Var_Int (go_Lit_Var (go_IntToLit i)) = Z.abs i.
Proof. go_solve. Qed.

Lemma Lit_Var_nonneg : forall l, 0 <= l -> 0 <= go_Lit_Var l.
Proof. go_solve. Qed.

Lemma Lit_Var_Negation : forall l, 0 <= l -> go_Lit_Var (go_Lit_Negation l) = go_Lit_Var l.
Proof. go_solve. Qed.

Lemma Lit_Int_Negation : forall l, 0 <= l -> go_Lit_Int (go_Lit_Negation l) = - go_Lit_Int l.
Proof. go_solve. Qed.

Lemma Var_Lit : forall v, 0 <= v -> go_Var_Lit v = go_IntToLit (v + 1).
Proof. go_solve. Qed.

Lemma Var_SignedLit : forall v s, 0 <= v ->
  go_Var_SignedLit v s = go_IntToLit (if s then - (v + 1) else v + 1).
Proof. go_solve. Qed.

Lemma Lit_Var_Var_Lit : forall v s, 0 <= v -> go_Lit_Var (go_Var_SignedLit v s) = v.
Proof. go_solve. Qed.

Lemma Var_Int_IntToVar : forall i, go_Var_Int (go_IntToVar i) = i.
Proof. go_solve. Qed.

Lemma IntToVar_Lit_Var : forall i, 1 <= i -> go_IntToVar i = go_Lit_Var (go_IntToLit i).
Proof. go_solve. Qed.

Lemma abs_spec : forall x, go_abs x = Z.abs x.
Proof. go_solve. Qed.

Lemma min_spec : forall a b, go_min a b = Z.min a b.
Proof. go_solve. Qed.

Lemma lvlToSignedLvl : forall i lvl, i <> 0 -> 0 < lvl ->
  go_lvlToSignedLvl (go_IntToLit i) lvl = (if 0 <? i then lvl else - lvl).
Proof. go_solve. Qed.

(* ------------------------------------------------------------------ *)
(* Heap index arithmetic (solver/queue.go)                              *)
(* ------------------------------------------------------------------ *)

Lemma heap_parent_left : forall i, 0 <= i -> go_parent (go_left i) = i.
Proof. go_solve. Qed.

Lemma heap_parent_right : forall i, 0 <= i -> go_parent (go_right i) = i.
Proof. go_solve. Qed.

Lemma heap_children_distinct : forall i, 0 <= i ->
  go_left i < go_right i /\ i < go_left i.
Proof. go_solve. Qed.

Lemma heap_parent_lt : forall i, 0 < i -> 0 <= go_parent i < i.
Proof. go_solve. Qed.
