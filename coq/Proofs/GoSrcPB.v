(* Refinement: executing the terms of Gen/GoSrc.v (the syntactic image of
   /repo/solver/pb.go and card.go) under the semantics of Model/GoIR.v computes
   what the hand-written models of Model/PBNorm.v compute, for every input. *)
From Coq Require Import List ZArith Bool String Lia Arith ZifyBool ZifyNat.
From GS Require Import Spec.Base Spec.PB Model.PBNorm Proofs.PBNorm Model.GoIR Gen.GoSrc Proofs.GoIR.
Import ListNotations.
Open Scope string_scope.
Open Scope list_scope.
Notation length := List.length (only parsing).
Open Scope Z_scope.

(* ------------------------------------------------------------------ vocabulary *)

(* [v] denotes the int slice with elements [ls] in heap [h]: nil (then [ls = []])
   or a well-formed header *)
Definition int_slice (h : heap) (v : val) (ls : list Z) : Prop :=
  (v = VNil /\ ls = []) \/ (exists s, v = VSl s /\ slice_ok h s /\ sl_read h s = ls).

(* the arrays of two values are different (nil is disjoint from everything) *)
Definition disjoint_vals (a b : val) : Prop :=
  match a, b with VSl s, VSl t => s_arr s <> s_arr t | _, _ => True end.

(* read a PBConstr / CardConstr result out of the final heap *)
Definition rl (r : rval) : option (list Z) :=
  match r with RNil => Some [] | RSl l => Some l | _ => None end.

Definition gopb_of_rval (r : rval) : option gopb :=
  match r with
  | RStruct [a; w; RInt d] =>
    match rl a, w with
    | Some ls, RNil => Some (GoPB ls None d)
    | Some ls, RSl l => Some (GoPB ls (Some l) d)
    | _, _ => None
    end
  | _ => None
  end.

Definition gocard_of_rval (r : rval) : option gocard :=
  match r with
  | RStruct [a; RInt d] => match rl a with Some ls => Some (GoCard ls d) | None => None end
  | _ => None
  end.

Fixpoint gopbs_of_rvals (l : list rval) : option (list gopb) :=
  match l with
  | [] => Some []
  | r :: t => match gopb_of_rval r, gopbs_of_rvals t with
              | Some g, Some gs => Some (g :: gs) | _, _ => None end
  end.

(* a []PBConstr result: nil or a list *)
Definition gopbs_of_rval (r : rval) : option (list gopb) :=
  match r with RNil => Some [] | RList l => gopbs_of_rvals l | _ => None end.

(* no array other than those of [vs] differs between [h] and [h'] *)
Definition frame (vs : list val) (h h' : heap) : Prop :=
  forall a, (forall v s, In v vs -> v = VSl s -> a <> s_arr s) -> arr_of h' a = arr_of h a.

Lemma int_slice_rl : forall h v ls, int_slice h v ls -> rl (readback h v) = Some ls.
Proof.
  intros h v ls [(-> & ->)|(s & -> & _ & <-)]; reflexivity.
Qed.

Lemma int_slice_nil : forall h ls, int_slice h VNil ls -> ls = [].
Proof. intros h ls [(_ & H)|(s & H & _)]; [exact H|discriminate]. Qed.

Lemma int_slice_sl : forall h s ls, int_slice h (VSl s) ls -> slice_ok h s /\ sl_read h s = ls.
Proof. intros h s ls [(H & _)|(s' & H & H1 & H2)]; [discriminate|]. inversion H. subst s'. split; assumption. Qed.

(* ------------------------------------------------------------------ stepping *)

Ltac gocbn :=
  cbn [exec eval eval_list lookup upd locals hp set_local String.eqb Ascii.eqb Bool.eqb andb
       of_eres ebind as_int eval_bin s_len s_off s_arr s_cap bind_params f_params f_body
       find_fun go_funs nth_error rev app read_val sub_slice readback map].
       
Ltac go1 := gocbn; rewrite ?idx_in by lia; gocbn.

(* a statement that finishes within fuel [k], by computation *)
Ltac by_exec k := apply (runs_exec go_funs k); [go1; try reflexivity | discriminate].

Lemma run_to_intro : forall g d args e0 h o,
  find_fun g go_funs = Some d -> bind_params (f_params d) args = Some e0 ->
  runs go_funs (f_body d) (St e0 h) o -> run_to go_funs g args h o.
Proof. intros g d args e0 h o Hf Hb H. apply (run_to_body _ _ _ _ _ _ _ Hf Hb). exact H. Qed.

Ltac enter := eapply run_to_intro; [reflexivity|reflexivity|]; cbn [f_body src_PBConstr_WeightSum src_PropClause
  src_AtLeast src_AtMost src_GtEq src_LtEq src_Eq src_AtLeast1 src_AtMost1 src_Exactly1].

(* ------------------------------------------------------------------ straight-line functions *)

Lemma PropClause_run : forall h vl,
  run_to go_funs "PropClause" [vl] h (OReturn (VStruct [vl; VNil; VInt 1]) h).
Proof. intros h vl. enter. by_exec 1%nat. Qed.

Lemma AtLeast_run : forall h vl n,
  run_to go_funs "AtLeast" [vl; VInt n] h (OReturn (VStruct [vl; VNil; VInt n]) h).
Proof. intros h vl n. enter. by_exec 1%nat. Qed.

Lemma AtLeast1_run : forall h vl,
  run_to go_funs "AtLeast1" [vl] h (OReturn (VStruct [vl; VInt 1]) h).
Proof. intros h vl. enter. by_exec 1%nat. Qed.

Lemma PropClause_refines : forall h vl ls, int_slice h vl ls ->
  exists fuel v h', run go_funs fuel "PropClause" [vl] h = OReturn v h' /\
    gopb_of_rval (readback h' v) = Some (prop_clause ls) /\ h' = h /\ v = VStruct [vl; VNil; VInt 1].
Proof.
  intros h vl ls Hl. destruct (run_to_fuel _ _ _ _ _ (PropClause_run h vl)) as (f & Hf).
  exists f, (VStruct [vl; VNil; VInt 1]), h. split; [exact Hf|]. split; [|split; reflexivity].
  cbn [readback map gopb_of_rval]. rewrite (int_slice_rl _ _ _ Hl). reflexivity.
Qed.

Lemma AtLeast_refines : forall h vl ls n, int_slice h vl ls ->
  exists fuel v h', run go_funs fuel "AtLeast" [vl; VInt n] h = OReturn v h' /\
    gopb_of_rval (readback h' v) = Some (at_least ls n) /\ h' = h /\ v = VStruct [vl; VNil; VInt n].
Proof.
  intros h vl ls n Hl. destruct (run_to_fuel _ _ _ _ _ (AtLeast_run h vl n)) as (f & Hf).
  exists f, (VStruct [vl; VNil; VInt n]), h. split; [exact Hf|]. split; [|split; reflexivity].
  cbn [readback map gopb_of_rval]. rewrite (int_slice_rl _ _ _ Hl). reflexivity.
Qed.

Lemma AtLeast1_refines : forall h vl ls, int_slice h vl ls ->
  exists fuel v h', run go_funs fuel "AtLeast1" [vl] h = OReturn v h' /\
    gocard_of_rval (readback h' v) = Some (at_least1 ls) /\ h' = h /\ v = VStruct [vl; VInt 1].
Proof.
  intros h vl ls Hl. destruct (run_to_fuel _ _ _ _ _ (AtLeast1_run h vl)) as (f & Hf).
  exists f, (VStruct [vl; VInt 1]), h. split; [exact Hf|]. split; [|split; reflexivity].
  cbn [readback map gocard_of_rval]. rewrite (int_slice_rl _ _ _ Hl). reflexivity.
Qed.

(* ------------------------------------------------------------------ AtMost, AtMost1 *)

(* the new array after [j] turns of the negation loop *)
Definition neg_prefix (j : nat) (ls : list Z) : list Z :=
  map Z.opp (firstn j ls) ++ repeat 0 (length ls - j).

Lemma neg_prefix_0 : forall ls, neg_prefix O ls = repeat 0 (length ls).
Proof. intros ls. unfold neg_prefix. rewrite Nat.sub_0_r. reflexivity. Qed.

Lemma neg_prefix_all : forall ls, neg_prefix (length ls) ls = map Z.opp ls.
Proof. intros ls. unfold neg_prefix. rewrite firstn_all, Nat.sub_diag. apply app_nil_r. Qed.

Lemma neg_prefix_step : forall j ls, (j < length ls)%nat ->
  write_at j [- nth j ls 0] (neg_prefix j ls) = neg_prefix (S j) ls.
Proof.
  intros j ls H. unfold neg_prefix.
  rewrite (firstn_S_nth ls j 0 H), map_app. cbn [map].
  replace (length ls - j)%nat with (S (length ls - S j)) by lia. cbn [repeat].
  rewrite <- app_assoc. cbn [app].
  apply (write_at_mid j [- nth j ls 0] (map Z.opp (firstn j ls)) [0]).
  - rewrite map_length, firstn_length_le; [reflexivity|lia].
  - reflexivity.
Qed.

Lemma length_neg_prefix : forall j ls, (j <= length ls)%nat -> length (neg_prefix j ls) = length ls.
Proof.
  intros j ls H. unfold neg_prefix. rewrite app_length, map_length, repeat_length, firstn_length_le by exact H. lia.
Qed.

Lemma AtMost_run : forall h vl ls n, int_slice h vl ls ->
  run_to go_funs "AtMost" [vl; VInt n] h
    (OReturn (VStruct [VSl (Slice (length h) O (length ls) (length ls)); VNil;
                       VInt (Z.of_nat (length ls) - n)])
             (h ++ [map Z.opp ls])).
Proof.
  intros h vl ls n [(-> & ->)|(s & -> & Hok & Hrd)].
  - enter. apply (runs_exec go_funs 3); [reflexivity|discriminate].
  - pose proof (length_sl_read h s Hok) as Hlen. rewrite Hrd in Hlen.
    pose proof Hok as (Ha & _).
    destruct s as [a o len c]. cbn [s_len s_arr s_off] in *. subst len.
    enter. eapply runs_seq.
    { apply runs_make with (k := Z.of_nat (length ls)); [reflexivity|lia]. }
    cbn [locals hp upd String.eqb Ascii.eqb Bool.eqb andb]. rewrite Nat2Z.id.
    set (L0 := [("lits", VSl (Slice a o (length ls) c)); ("n", VInt n);
                ("lits2", VSl (Slice (length h) O (length ls) (length ls)))]).
    set (I := fun (j : nat) (st : state) =>
       (locals st = L0 \/ exists z, locals st = L0 ++ [("i", VInt z)]) /\
       hp st = h ++ [neg_prefix j ls]).
    destruct (runs_range_inv go_funs "i" "_" (EVar "lits")
                (SSetIdx (EVar "lits2") (EVar "i") (ENeg (EIdx (EVar "lits") (EVar "i"))))
                (St L0 (h ++ [repeat 0 (length ls)])) (Slice a o (length ls) c) I)
      as (st' & Hrun & (Hloc & Hhp)).
    + reflexivity.
    + split; [left; reflexivity|]. cbn [hp]. rewrite neg_prefix_0. reflexivity.
    + intros j [loc hp0] Hj (Hloc & Hhp). cbn [s_len locals hp] in *. subst hp0.
      exists (St (L0 ++ [("i", VInt (Z.of_nat j))]) (h ++ [neg_prefix (S j) ls])).
      split; [|split; [right; eexists; reflexivity|reflexivity]].
      assert (Hnth : nth (o + j) (arr_of h a) 0 = nth j ls 0).
      { rewrite <- Hrd. symmetry. apply (nth_sl_read h (Slice a o (length ls) c)). exact Hj. }
      destruct Hloc as [->|(z & ->)]; apply (runs_exec go_funs 1);
        try discriminate; unfold L0; cbn [range_pre String.eqb Ascii.eqb Bool.eqb andb]; go1;
        rewrite !Nat2Z.id, arr_of_alloc_old by lia; cbn [Nat.add];
        rewrite heap_write_alloc_new, Hnth, neg_prefix_step by exact Hj; reflexivity.
    + cbn [s_len] in *. destruct st' as [loc hp']. cbn [locals hp] in *. subst hp'.
      rewrite neg_prefix_all in Hrun. eapply runs_seq; [exact Hrun|].
      destruct Hloc as [->|(z & ->)]; apply (runs_exec go_funs 1); try discriminate; reflexivity.
Qed.

Lemma AtMost1_run : forall h vl ls, int_slice h vl ls ->
  run_to go_funs "AtMost1" [vl] h
    (OReturn (VStruct [VSl (Slice (length h) O (length ls) (length ls));
                       VInt (Z.of_nat (length ls) - 1)])
             (h ++ [map Z.opp ls])).
Proof.
  intros h vl ls [(-> & ->)|(s & -> & Hok & Hrd)].
  - enter. apply (runs_exec go_funs 3); [reflexivity|discriminate].
  - pose proof (length_sl_read h s Hok) as Hlen. rewrite Hrd in Hlen.
    pose proof Hok as (Ha & _).
    destruct s as [a o len c]. cbn [s_len s_arr s_off] in *. subst len.
    enter. eapply runs_seq.
    { apply runs_make with (k := Z.of_nat (length ls)); [reflexivity|lia]. }
    cbn [locals hp upd String.eqb Ascii.eqb Bool.eqb andb]. rewrite Nat2Z.id.
    set (L0 := [("lits", VSl (Slice a o (length ls) c));
                ("negated", VSl (Slice (length h) O (length ls) (length ls)))]).
    set (I := fun (j : nat) (st : state) =>
       (locals st = L0 \/ exists z y, locals st = L0 ++ [("i", VInt z); ("lit", VInt y)]) /\
       hp st = h ++ [neg_prefix j ls]).
    destruct (runs_range_inv go_funs "i" "lit" (EVar "lits")
                (SSetIdx (EVar "negated") (EVar "i") (ENeg (EVar "lit")))
                (St L0 (h ++ [repeat 0 (length ls)])) (Slice a o (length ls) c) I)
      as (st' & Hrun & (Hloc & Hhp)).
    + reflexivity.
    + split; [left; reflexivity|]. cbn [hp]. rewrite neg_prefix_0. reflexivity.
    + intros j [loc hp0] Hj (Hloc & Hhp). cbn [s_len locals hp] in *. subst hp0.
      exists (St (L0 ++ [("i", VInt (Z.of_nat j)); ("lit", VInt (nth j ls 0))]) (h ++ [neg_prefix (S j) ls])).
      split; [|split; [right; eexists; eexists; reflexivity|reflexivity]].
      assert (Hnth : nth (o + j) (arr_of h a) 0 = nth j ls 0).
      { rewrite <- Hrd. symmetry. apply (nth_sl_read h (Slice a o (length ls) c)). exact Hj. }
      destruct Hloc as [->|(z & y & ->)]; apply (runs_exec go_funs 1);
        try discriminate; unfold L0; cbn [range_pre String.eqb Ascii.eqb Bool.eqb andb]; go1;
        rewrite !Nat2Z.id, arr_of_alloc_old by lia; cbn [Nat.add];
        rewrite heap_write_alloc_new, Hnth, neg_prefix_step by exact Hj; reflexivity.
    + cbn [s_len] in *. destruct st' as [loc hp']. cbn [locals hp] in *. subst hp'.
      rewrite neg_prefix_all in Hrun. eapply runs_seq; [exact Hrun|].
      destruct Hloc as [->|(z & y & ->)]; apply (runs_exec go_funs 1); try discriminate; reflexivity.
Qed.

(* ------------------------------------------------------------------ PBConstr.WeightSum *)

Lemma zsum_firstn_S : forall ws j, (j < length ws)%nat ->
  zsum (firstn (S j) ws) = zsum (firstn j ws) + nth j ws 0.
Proof.
  intros ws j H. rewrite (firstn_S_nth ws j 0 H), zsum_app. cbn [zsum]. lia.
Qed.

Definition ws_opt (vw : val) (ws : list Z) : option (list Z) :=
  match vw with VNil => None | _ => Some ws end.

Lemma WeightSum_run : forall h vl vw ls ws d, int_slice h vl ls -> int_slice h vw ws ->
  run_to go_funs "PBConstr.WeightSum" [VStruct [vl; vw; VInt d]] h
    (OReturn (VInt (weight_sum (GoPB ls (ws_opt vw ws) d))) h).
Proof.
  intros h vl vw ls ws d Hl [(-> & ->)|(s & -> & Hok & Hrd)].
  - (* nil weights *)
    cbn [ws_opt weight_sum g_ws g_lits].
    destruct Hl as [(-> & ->)|(sl & -> & Hokl & Hrdl)].
    + enter. apply (runs_exec go_funs 3); [reflexivity|discriminate].
    + pose proof (length_sl_read h sl Hokl) as Hlen. rewrite Hrdl in Hlen. rewrite Hlen.
      enter. apply (runs_exec go_funs 3); [reflexivity|discriminate].
  - cbn [ws_opt weight_sum g_ws g_lits].
    pose proof (length_sl_read h s Hok) as Hlen. rewrite Hrd in Hlen.
    destruct s as [a o len c]. cbn [s_len s_arr s_off] in *. subst len.
    set (sw := Slice a o (length ws) c) in *.
    enter.
    eapply runs_seq; [apply (runs_exec go_funs 2); [reflexivity|discriminate]|].
    eapply runs_seq; [apply (runs_exec go_funs 1); [reflexivity|discriminate]|].
    cbn [set_local locals hp upd String.eqb Ascii.eqb Bool.eqb andb].
    set (cv := VStruct [vl; VSl sw; VInt d]).
    set (I := fun (j : nat) (st : state) =>
       (locals st = [("c", cv); ("res", VInt (zsum (firstn j ws)))] \/
        exists y, locals st = [("c", cv); ("res", VInt (zsum (firstn j ws))); ("w", VInt y)]) /\
       hp st = h).
    destruct (runs_range_inv go_funs "_" "w" (EFld (EVar "c") 1)
                (SSet "res" (EBin Add (EVar "res") (EVar "w")))
                (St [("c", cv); ("res", VInt 0)] h) sw I)
      as (st' & Hrun & (Hloc & Hhp)).
    + reflexivity.
    + split; [left; reflexivity|reflexivity].
    + intros j [loc hp0] Hj (Hloc & Hhp). cbn [s_len locals hp sw] in *. subst hp0.
      assert (Hnth : nth (o + j) (arr_of h a) 0 = nth j ws 0).
      { rewrite <- Hrd. symmetry. apply (nth_sl_read h sw). exact Hj. }
      exists (St [("c", cv); ("res", VInt (zsum (firstn (S j) ws))); ("w", VInt (nth j ws 0))] h).
      split; [|split; [right; eexists; reflexivity|reflexivity]].
      rewrite zsum_firstn_S by exact Hj.
      destruct Hloc as [->|(y & ->)]; apply (runs_exec go_funs 1);
        try discriminate; cbn [range_pre String.eqb Ascii.eqb Bool.eqb andb]; go1;
        cbn [s_off s_arr sw]; rewrite Hnth; reflexivity.
    + cbn [s_len sw] in *. destruct st' as [loc hp']. cbn [locals hp] in *. subst hp'.
      rewrite firstn_all in Hloc. eapply runs_seq; [exact Hrun|].
      destruct Hloc as [->|(y & ->)]; apply (runs_exec go_funs 1); try discriminate; reflexivity.
Qed.

(* ------------------------------------------------------------------ Exactly1 *)

Lemma Exactly1_run : forall h vl ls, int_slice h vl ls ->
  run_to go_funs "Exactly1" [vl] h
    (OReturn (VList [VStruct [vl; VInt 1];
                     VStruct [VSl (Slice (length h) O (length ls) (length ls));
                              VInt (Z.of_nat (length ls) - 1)]])
             (h ++ [map Z.opp ls])).
Proof.
  intros h vl ls Hl. enter.
  eapply runs_seq.
  { eapply runs_call_run; [reflexivity|]. apply AtLeast1_run. }
  eapply runs_seq.
  { eapply runs_call_run; [reflexivity|]. cbn [hp]. apply AtMost1_run. exact Hl. }
  apply (runs_exec go_funs 1); [reflexivity|discriminate].
Qed.

(* ------------------------------------------------------------------ GtEq *)

(* reading and writing an array of the shape [P ++ D ++ x :: M ++ R] at [|P| + |D|] *)
Lemma nth_PD : forall (o : nat) (P D R : list Z) x d, o = (length P + length D)%nat ->
  nth o (P ++ D ++ x :: R) d = x.
Proof. intros o P D R x d H. rewrite app_assoc. apply nth_mid. rewrite app_length. exact H. Qed.

Lemma write_PD1 : forall (o : nat) (P D R : list Z) x y, o = (length P + length D)%nat ->
  write_at o [y] (P ++ D ++ x :: R) = P ++ D ++ y :: R.
Proof.
  intros o P D R x y H. rewrite !app_assoc.
  apply (write_at_mid o [y] (P ++ D) [x] R); [rewrite app_length; exact H|reflexivity].
Qed.

Lemma read_PDx : forall (o n : nat) (P D M R : list Z) x,
  o = (length P + length D + 1)%nat -> n = length M ->
  firstn n (skipn o (P ++ D ++ x :: M ++ R)) = M.
Proof.
  intros o n P D M R x Ho Hn.
  replace (P ++ D ++ x :: M ++ R) with ((P ++ D ++ [x]) ++ M ++ R)
    by (rewrite <- !app_assoc; reflexivity).
  apply read_mid; [|exact Hn]. rewrite !app_length. cbn [length]. lia.
Qed.

(* [append(s[:i], s[i+1:]...)]: the tail moves one place to the left, its last cell stays *)
Lemma write_del_gen : forall (o : nat) (P D X R : list Z), X <> [] ->
  o = (length P + length D)%nat ->
  write_at o (tl X) (P ++ D ++ X ++ R) = P ++ D ++ tl X ++ last X 0 :: R.
Proof.
  intros o P D X R HX Ho.
  pose proof (app_removelast_last 0 HX) as E.
  pose proof (removelast_length X HX) as El.
  remember (removelast X) as A eqn:EA. remember (last X 0) as b eqn:Eb.
  assert (Htl : length (tl X) = length A) by (destruct X; [congruence|cbn [tl length] in *; lia]).
  replace (P ++ D ++ X ++ R) with ((P ++ D) ++ A ++ (b :: R))
    by (rewrite E, <- !app_assoc; reflexivity).
  rewrite write_at_mid by (rewrite ?app_length; lia).
  rewrite <- app_assoc. reflexivity.
Qed.

Lemma write_PD_del : forall (o : nat) (P D M R : list Z) x,
  o = (length P + length D)%nat ->
  write_at o M (P ++ D ++ x :: M ++ R) = P ++ D ++ M ++ last (x :: M) 0 :: R.
Proof.
  intros o P D M R x Ho. apply (write_del_gen o P D (x :: M) R); [discriminate|exact Ho].
Qed.

(* the heap during a run that writes only the two arrays [al] and [aw] of [h0] *)
Definition HD (h0 : heap) (al aw : nat) (hp : heap) (Al Aw : list Z) : Prop :=
  length hp = length h0 /\ arr_of hp al = Al /\ arr_of hp aw = Aw /\
  forall a, a <> al -> a <> aw -> arr_of hp a = arr_of h0 a.

Lemma HD_write_l : forall h0 al aw hp Al Aw o ys, al <> aw -> (al < length h0)%nat ->
  HD h0 al aw hp Al Aw -> HD h0 al aw (heap_write hp al o ys) (write_at o ys Al) Aw.
Proof.
  intros h0 al aw hp Al Aw o ys Hne Hal (H1 & H2 & H3 & H4). unfold HD.
  rewrite length_heap_write, arr_of_heap_write_same by lia.
  rewrite arr_of_heap_write_other by exact Hne.
  repeat split; try congruence.
  intros a Ha1 Ha2. rewrite arr_of_heap_write_other by congruence. apply H4; assumption.
Qed.

Lemma HD_write_w : forall h0 al aw hp Al Aw o ys, al <> aw -> (aw < length h0)%nat ->
  HD h0 al aw hp Al Aw -> HD h0 al aw (heap_write hp aw o ys) Al (write_at o ys Aw).
Proof.
  intros h0 al aw hp Al Aw o ys Hne Haw (H1 & H2 & H3 & H4). unfold HD.
  rewrite length_heap_write, arr_of_heap_write_same by lia.
  rewrite arr_of_heap_write_other by congruence.
  repeat split; try congruence.
  intros a Ha1 Ha2. rewrite arr_of_heap_write_other by congruence. apply H4; assumption.
Qed.

Definition gt_cond : expr := EBin Lt (EVar "i") (ELen (EVar "weights")).
Definition gt_post : stmt := SSet "i" (EBin Add (EVar "i") (EInt 1)).
Definition gt_body : stmt :=
  SSeq (SIf (EBin Lt (EIdx (EVar "weights") (EVar "i")) (EInt 0))
      (SSeq (SSetIdx (EVar "weights") (EVar "i") (ENeg (EIdx (EVar "weights") (EVar "i"))))
      (SSeq (SSet "n" (EBin Add (EVar "n") (EIdx (EVar "weights") (EVar "i"))))
      (SSetIdx (EVar "lits") (EVar "i") (ENeg (EIdx (EVar "lits") (EVar "i"))))))
      SSkip)
      (SIf (EBin Eq (EIdx (EVar "weights") (EVar "i")) (EInt 0))
      (SSeq (SAppendSl "weights" (ESub (EVar "weights") None (Some (EVar "i"))) (ESub (EVar "weights") (Some (EBin Add (EVar "i") (EInt 1))) None))
      (SSeq (SAppendSl "lits" (ESub (EVar "lits") None (Some (EVar "i"))) (ESub (EVar "lits") (Some (EBin Add (EVar "i") (EInt 1))) None))
      (SSet "i" (EBin Sub (EVar "i") (EInt 1)))))
      SSkip).
Definition gt_guard : stmt :=
  SIf (EBin And (EBin Ne (ELen (EVar "weights")) (EInt 0)) (EBin Ne (ELen (EVar "lits")) (ELen (EVar "weights"))))
      SPanic SSkip.
Definition gt_ret : stmt := SReturn (EStruct [(EVar "lits"); (EVar "weights"); (EVar "n")]).

(* the generated term is made of these parts (re-checked whenever Gen/GoSrc.v changes) *)
Lemma src_GtEq_shape : src_GtEq = FDef ["lits"; "weights"; "n"]
  (SSeq gt_guard (SSeq (SSeq (SSet "i" (EInt 0)) (SFor gt_cond gt_post gt_body)) gt_ret)).
Proof. reflexivity. Qed.

Section GtEqLoop.
Variables (h0 : heap) (al ol cl aw ow cw : nat) (PL QL PW QW ls ws : list Z) (n0 : Z).
Hypothesis Hne : al <> aw.
Hypothesis Hal : (al < length h0)%nat.
Hypothesis Haw : (aw < length h0)%nat.
Hypothesis HPL : length PL = ol.
Hypothesis HPW : length PW = ow.
Hypothesis Hlen : length ls = length ws.
Hypothesis Hcl : (length ls <= cl)%nat.
Hypothesis Hcw : (length ws <= cw)%nat.

Definition gloc (lenl lenw : nat) (n i : Z) : env :=
  [("lits", VSl (Slice al ol lenl cl)); ("weights", VSl (Slice aw ow lenw cw));
   ("n", VInt n); ("i", VInt i)].

Definition loop_rel (dl dw rl rw : list Z) (n' : Z) : Prop :=
  gt_eq_loop ls ws n0 = (let '(L, W, n2) := gt_eq_loop rl rw n' in (dl ++ L, dw ++ W, n2)).

(* at the loop head: [d] done and kept, [r] not yet examined, [t] what the
   deletions left behind the live part; [k] pairs to go *)
Inductive Inv (k : nat) (st : state) : Prop :=
| Inv_intro : forall dl rl tl dw rw tw n' lenl lenw iz,
    locals st = gloc lenl lenw n' iz ->
    lenl = (length dl + length rl)%nat -> lenw = (length dw + length rw)%nat ->
    iz = Z.of_nat (length dw) ->
    HD h0 al aw (hp st) (PL ++ dl ++ rl ++ tl ++ QL) (PW ++ dw ++ rw ++ tw ++ QW) ->
    length dl = length dw -> length rl = length rw -> length tl = length tw ->
    (length dl + length rl + length tl = length ls)%nat ->
    tl = repeat (last ls 0) (length tl) -> tw = repeat (last ws 0) (length tw) ->
    (rl <> [] -> last rl 0 = last ls 0) -> (rw <> [] -> last rw 0 = last ws 0) ->
    loop_rel dl dw rl rw n' -> length rw = k ->
    Inv k st.

Ltac rd HAl HAw :=
  repeat (gocbn;
    first [ rewrite idx_in by lia | rewrite sub_in by lia | rewrite Nat2Z.id
          | rewrite arr_of_heap_write_same by lia
          | rewrite arr_of_heap_write_other by congruence
          | rewrite HAl | rewrite HAw
          | rewrite write_PD1 by lia | rewrite nth_PD by lia
          | progress unfold sl_read
          | progress unfold sub_slice
          | rewrite read_PDx by lia
          | rewrite leb_in by lia ]); gocbn; unfold set_local; gocbn.

Lemma gt_exit : forall st, Inv O st -> eval st gt_cond = EV (VBool false).
Proof.
  intros [loc hp] HI.
  destruct HI as [dl rl tl dw rw tw n' lenl lenw iz Hloc -> -> -> HHD Hd Hr Ht Hsum Htl Htw Hll Hlw Hrel Hk].
  cbn [locals] in Hloc. subst loc. unfold gt_cond, gloc. gocbn. do 2 f_equal. lia.
Qed.

Lemma gt_step : forall k st, Inv (S k) st ->
  eval st gt_cond = EV (VBool true) /\
  exists st1 st2, runs go_funs gt_body st (ONormal st1) /\ runs go_funs gt_post st1 (ONormal st2) /\ Inv k st2.
Proof.
  intros k [loc hp] HI.
  destruct HI as [dl rl tl dw rw tw n' lenl lenw iz Hloc -> -> -> HHD Hd Hr Ht Hsum Htl Htw Hll Hlw Hrel Hk].
  cbn [locals GoIR.hp] in *. subst loc.
  destruct rw as [|w rw']; [discriminate|]. destruct rl as [|l rl']; [discriminate|].
  cbn [length] in *. cbn [app] in HHD.
  split; [unfold gt_cond, gloc; gocbn; do 2 f_equal; lia|].
  pose proof HHD as (Hhl & HAl & HAw & Hfr).
  assert (Hhpl : (al < length hp)%nat) by lia. assert (Hhpw : (aw < length hp)%nat) by lia.
  unfold loop_rel in Hrel. cbn [gt_eq_loop] in Hrel.
  destruct (w <? 0) eqn:Ew.
  - (* negative weight: both cells change sign, nothing is deleted *)
    destruct (- w =? 0) eqn:E0; [lia|].
    set (hp1 := heap_write (heap_write hp aw (ow + length dw) [- w]) al (ol + length dw) [- l]).
    exists (St (gloc (length dl + S (length rl')) (length dw + S (length rw')) (n' + - w) (Z.of_nat (length dw))) hp1).
    exists (St (gloc (length dl + S (length rl')) (length dw + S (length rw')) (n' + - w) (Z.of_nat (length dw) + 1)) hp1).
    split; [|split].
    + apply (runs_exec go_funs 6); [|discriminate]. unfold gt_body, gloc.
      rd HAl HAw. rewrite Ew. rd HAl HAw. rewrite E0. rd HAl HAw. reflexivity.
    + apply (runs_exec go_funs 1); [reflexivity|discriminate].
    + apply Inv_intro with (dl := dl ++ [- l]) (rl := rl') (tl := tl) (dw := dw ++ [- w]) (rw := rw') (tw := tw)
          (n' := n' + - w) (lenl := (length dl + S (length rl'))%nat) (lenw := (length dw + S (length rw'))%nat)
          (iz := Z.of_nat (length dw) + 1); cbn [locals GoIR.hp]; rewrite ?app_length; cbn [length];
        try reflexivity; try lia; try assumption.
      * pose proof (HD_write_l _ _ _ _ _ _ (ol + length dw) [- l] Hne Hal
                      (HD_write_w _ _ _ _ _ _ (ow + length dw) [- w] Hne Haw HHD)) as H.
        rewrite !write_PD1 in H by lia. rewrite <- !app_assoc. exact H.
      * intros Hn. rewrite <- Hll by discriminate. symmetry. apply last_cons_ne. exact Hn.
      * intros Hn. rewrite <- Hlw by discriminate. symmetry. apply last_cons_ne. exact Hn.
      * unfold loop_rel. rewrite Hrel. destruct (gt_eq_loop rl' rw' (n' + - w)) as [[L W] n2].
        rewrite <- !app_assoc. reflexivity.
  - destruct (w =? 0) eqn:E0.
    + (* zero weight: the pair is deleted *)
      set (hp1 := heap_write (heap_write hp aw (ow + length dw) rw') al (ol + length dw) rl').
      exists (St (gloc (length dl + length rl') (length dw + length rw') n' (Z.of_nat (length dw) - 1)) hp1).
      exists (St (gloc (length dl + length rl') (length dw + length rw') n' (Z.of_nat (length dw) - 1 + 1)) hp1).
      split; [|split].
      * apply (runs_exec go_funs 6); [|discriminate]. unfold gt_body, gloc.
        rd HAl HAw. rewrite Ew. rd HAl HAw. rewrite E0. rd HAl HAw.
        unfold hp1. repeat f_equal; lia.
      * apply (runs_exec go_funs 1); [reflexivity|discriminate].
      * apply Inv_intro with (dl := dl) (rl := rl') (tl := last (l :: rl') 0 :: tl) (dw := dw) (rw := rw')
            (tw := last (w :: rw') 0 :: tw)
            (n' := n') (lenl := (length dl + length rl')%nat) (lenw := (length dw + length rw')%nat)
            (iz := Z.of_nat (length dw) - 1 + 1); cbn [locals GoIR.hp length];
          try reflexivity; try lia; try assumption.
        -- pose proof (HD_write_l _ _ _ _ _ _ (ol + length dw) rl' Hne Hal
                        (HD_write_w _ _ _ _ _ _ (ow + length dw) rw' Hne Haw HHD)) as H.
           rewrite !write_PD_del in H by lia. exact H.
        -- cbn [repeat]. rewrite Hll by discriminate. f_equal. exact Htl.
        -- cbn [repeat]. rewrite Hlw by discriminate. f_equal. exact Htw.
        -- intros Hn. rewrite <- Hll by discriminate. symmetry. apply last_cons_ne. exact Hn.
        -- intros Hn. rewrite <- Hlw by discriminate. symmetry. apply last_cons_ne. exact Hn.
    + (* positive weight: kept as it is *)
      exists (St (gloc (length dl + S (length rl')) (length dw + S (length rw')) n' (Z.of_nat (length dw))) hp).
      exists (St (gloc (length dl + S (length rl')) (length dw + S (length rw')) n' (Z.of_nat (length dw) + 1)) hp).
      split; [|split].
      * apply (runs_exec go_funs 6); [|discriminate]. unfold gt_body, gloc.
        rd HAl HAw. rewrite Ew. rd HAl HAw. rewrite E0. rd HAl HAw. reflexivity.
      * apply (runs_exec go_funs 1); [reflexivity|discriminate].
      * apply Inv_intro with (dl := dl ++ [l]) (rl := rl') (tl := tl) (dw := dw ++ [w]) (rw := rw') (tw := tw)
            (n' := n') (lenl := (length dl + S (length rl'))%nat) (lenw := (length dw + S (length rw'))%nat)
            (iz := Z.of_nat (length dw) + 1); cbn [locals GoIR.hp]; rewrite ?app_length; cbn [length];
          try reflexivity; try lia; try assumption.
        -- rewrite <- !app_assoc. exact HHD.
        -- intros Hn. rewrite <- Hll by discriminate. symmetry. apply last_cons_ne. exact Hn.
        -- intros Hn. rewrite <- Hlw by discriminate. symmetry. apply last_cons_ne. exact Hn.
        -- unfold loop_rel. rewrite Hrel. destruct (gt_eq_loop rl' rw' n') as [[L W] n2].
           rewrite <- !app_assoc. reflexivity.
Qed.

Lemma gt_loop : forall k st, Inv k st ->
  exists st', runs go_funs (SFor gt_cond gt_post gt_body) st (ONormal st') /\ Inv O st'.
Proof.
  induction k as [|k IH]; intros st HI.
  - exists st. split; [|exact HI]. apply runs_for_false. apply gt_exit. exact HI.
  - destruct (gt_step k st HI) as (Hc & st1 & st2 & Hb & Hp & HI2).
    destruct (IH st2 HI2) as (st' & Hr & HI').
    exists st'. split; [|exact HI']. eapply runs_for_true; eassumption.
Qed.

End GtEqLoop.

Lemma HD_lengths : forall h0 al aw hp Al Aw, HD h0 al aw hp Al Aw ->
  length Al = length (arr_of h0 al) -> length Aw = length (arr_of h0 aw) ->
  forall a, length (arr_of hp a) = length (arr_of h0 a).
Proof.
  intros h0 al aw hp Al Aw (H1 & H2 & H3 & H4) HlA HwA a.
  destruct (Nat.eq_dec a al) as [->|N1]; [congruence|].
  destruct (Nat.eq_dec a aw) as [->|N2]; [congruence|].
  rewrite H4 by assumption. reflexivity.
Qed.

Lemma GtEq_core : forall h0 al ol cl aw ow cw PL QL PW QW ls ws n0 L W nf,
  al <> aw -> (al < length h0)%nat -> (aw < length h0)%nat ->
  length PL = ol -> length PW = ow -> length ls = length ws ->
  (length ls <= cl)%nat -> (length ws <= cw)%nat ->
  arr_of h0 al = PL ++ ls ++ QL -> arr_of h0 aw = PW ++ ws ++ QW -> ws <> [] ->
  gt_eq_loop ls ws n0 = (L, W, nf) ->
  exists h',
    runs go_funs (f_body src_GtEq)
      (St [("lits", VSl (Slice al ol (length ls) cl)); ("weights", VSl (Slice aw ow (length ws) cw));
           ("n", VInt n0)] h0)
      (OReturn (VStruct [VSl (Slice al ol (length L) cl); VSl (Slice aw ow (length W) cw); VInt nf]) h') /\
    HD h0 al aw h' (PL ++ L ++ repeat (last ls 0) (length ls - length L) ++ QL)
                   (PW ++ W ++ repeat (last ws 0) (length ws - length W) ++ QW) /\
    length L = length W /\ (length L <= length ls)%nat.
Proof.
  intros h0 al ol cl aw ow cw PL QL PW QW ls ws n0 L W nf Hne Hal Haw HPL HPW Hlen Hcl Hcw HAl HAw Hws HL.
  rewrite src_GtEq_shape. cbn [f_body].
  destruct (gt_loop h0 al ol cl aw ow cw PL QL PW QW ls ws n0 Hne Hal Haw HPL HPW Hlen Hcl Hcw
              (length ws) (St (gloc al ol cl aw ow cw (length ls) (length ws) n0 0) h0))
    as (st' & Hrun & HI).
  { apply Inv_intro with (dl := []) (rl := ls) (tl := []) (dw := []) (rw := ws) (tw := [])
        (n' := n0) (lenl := length ls) (lenw := length ws) (iz := 0); cbn [locals hp length app repeat];
      try reflexivity; try lia.
    - unfold HD. repeat split; try assumption; reflexivity.
    - unfold loop_rel. destruct (gt_eq_loop ls ws n0) as [[L0 W0] n2]. reflexivity. }
  destruct st' as [loc hp'].
  destruct HI as [dl rl tl dw rw tw n' lenl lenw iz Hloc -> -> -> HHD Hd Hr Ht Hsum Htl Htw Hll Hlw Hrel Hk].
  cbn [locals hp] in *. subst loc.
  destruct rw; [|discriminate]. destruct rl; [|discriminate].
  unfold loop_rel in Hrel. cbn [gt_eq_loop] in Hrel. rewrite HL, !app_nil_r in Hrel.
  inversion Hrel. subst L W nf. clear Hrel.
  cbn [length app] in *.
  exists hp'. split; [|split; [|split]].
  - eapply runs_seq.
    { apply (runs_exec go_funs 2); [|discriminate]. unfold gt_guard. gocbn.
      destruct (Z.of_nat (length ws) =? 0) eqn:E; [destruct ws; [congruence|cbn [length] in E; lia]|].
      cbn [negb]. destruct (Z.of_nat (length ls) =? Z.of_nat (length ws)) eqn:E2; [|lia]. reflexivity. }
    eapply runs_seq.
    { eapply runs_seq; [apply (runs_exec go_funs 1); [reflexivity|discriminate]|exact Hrun]. }
    apply (runs_exec go_funs 1); [|discriminate]. unfold gt_ret, gloc. gocbn. repeat f_equal; lia.
  - replace (length ls - length dl)%nat with (length tl) by lia.
    replace (length ws - length dw)%nat with (length tw) by lia.
    rewrite <- Htl, <- Htw. exact HHD.
  - exact Hd.
  - lia.
Qed.

(* nothing outside the window of [s] changes in the array of [s] *)
Definition outside_same (h h' : heap) (s : slice) : Prop :=
  firstn (s_off s) (arr_of h' (s_arr s)) = firstn (s_off s) (arr_of h (s_arr s)) /\
  skipn (s_off s + s_len s) (arr_of h' (s_arr s)) = skipn (s_off s + s_len s) (arr_of h (s_arr s)).

Lemma outside_same_intro : forall h h' s P M M' Q, length P = s_off s -> length M = s_len s ->
  length M' = s_len s ->
  arr_of h (s_arr s) = P ++ M ++ Q -> arr_of h' (s_arr s) = P ++ M' ++ Q -> outside_same h h' s.
Proof.
  intros h h' s P M M' Q HP HM HM' H1 H2. unfold outside_same. rewrite H1, H2. split.
  - rewrite !firstn_mid by (symmetry; exact HP). reflexivity.
  - rewrite !app_assoc. rewrite !skipn_mid by (rewrite app_length; lia). reflexivity.
Qed.

Lemma GtEq_run : forall h sl sw n L W nf,
  slice_ok h sl -> slice_ok h sw -> s_arr sl <> s_arr sw -> sl_read h sw <> [] ->
  length (sl_read h sl) = length (sl_read h sw) ->
  gt_eq_loop (sl_read h sl) (sl_read h sw) n = (L, W, nf) ->
  exists h',
    run_to go_funs "GtEq" [VSl sl; VSl sw; VInt n] h
      (OReturn (VStruct [VSl (Slice (s_arr sl) (s_off sl) (length L) (s_cap sl));
                         VSl (Slice (s_arr sw) (s_off sw) (length W) (s_cap sw)); VInt nf]) h') /\
    length h' = length h /\
    (forall a, a <> s_arr sl -> a <> s_arr sw -> arr_of h' a = arr_of h a) /\
    (forall a, length (arr_of h' a) = length (arr_of h a)) /\
    sl_read h' sl = L ++ repeat (last (sl_read h sl) 0) (s_len sl - length L) /\
    sl_read h' sw = W ++ repeat (last (sl_read h sw) 0) (s_len sw - length W) /\
    length L = length W /\ (length L <= s_len sl)%nat /\
    outside_same h h' sl /\ outside_same h h' sw.
Proof.
  intros h sl sw n L W nf Hokl Hokw Hne Hws Hlen HL.
  destruct (slice_split h sl Hokl) as (PL & QL & HAl & HPL).
  destruct (slice_split h sw Hokw) as (PW & QW & HAw & HPW).
  pose proof (length_sl_read h sl Hokl) as Hll. pose proof (length_sl_read h sw Hokw) as Hlw.
  pose proof Hokl as (Hal & Hcl & Hbl). pose proof Hokw as (Haw & Hcw & Hbw).
  remember (sl_read h sl) as ls eqn:Els. remember (sl_read h sw) as ws eqn:Ews.
  destruct (GtEq_core h (s_arr sl) (s_off sl) (s_cap sl) (s_arr sw) (s_off sw) (s_cap sw)
              PL QL PW QW ls ws n L W nf) as (h' & Hrun & HHD & HLW & HLl); try assumption; try lia.
  exists h'.
  assert (Hlens : forall a, length (arr_of h' a) = length (arr_of h a)).
  { apply (HD_lengths _ _ _ _ _ _ HHD).
    - rewrite HAl, !app_length, repeat_length. lia.
    - rewrite HAw, !app_length, repeat_length. lia. }
  pose proof HHD as (Hh' & HAl' & HAw' & Hfr).
  split; [|split; [exact Hh'|split; [exact Hfr|split; [exact Hlens|]]]].
  - destruct sl as [al ol lenl cl]. destruct sw as [aw ow lenw cw]. cbn [s_arr s_off s_len s_cap] in *.
    enter. rewrite <- Hll, <- Hlw. exact Hrun.
  - split; [|split; [|split; [exact HLW|split; [lia|split]]]].
    + unfold sl_read. rewrite HAl'. rewrite <- Hll. rewrite (app_assoc L).
      apply read_mid; [lia|]. rewrite app_length, repeat_length. lia.
    + unfold sl_read. rewrite HAw'. rewrite <- Hlw. rewrite (app_assoc W).
      apply read_mid; [lia|]. rewrite app_length, repeat_length. lia.
    + rewrite (app_assoc L) in HAl'.
      apply (outside_same_intro h h' sl PL ls _ QL HPL Hll) with (3 := HAl'); [|exact HAl].
      rewrite app_length, repeat_length. lia.
    + rewrite (app_assoc W) in HAw'.
      apply (outside_same_intro h h' sw PW ws _ QW HPW Hlw) with (3 := HAw'); [|exact HAw].
      rewrite app_length, repeat_length. lia.
Qed.

(* ---- the statements about GtEq *)

Lemma run_to_unique : forall fe g args h o fuel o',
  run_to fe g args h o -> run fe fuel g args h = o' -> o' <> OFuel -> o' = o.
Proof.
  intros fe g args h o fuel o' H H' N. apply (run_to_det fe g args h o' o); [|exact H].
  exists fuel. split; assumption.
Qed.

Lemma slice_ok_lens : forall h h' s, length h' = length h ->
  (forall a, length (arr_of h' a) = length (arr_of h a)) -> slice_ok h s -> slice_ok h' s.
Proof. intros h h' s H1 H2. apply slice_ok_ext; [exact H1|apply H2]. Qed.

(* the same header with another length (nil stays nil) *)
Definition relen (v : val) (n : nat) : val :=
  match v with VSl s => VSl (Slice (s_arr s) (s_off s) n (s_cap s)) | _ => v end.

Definition wlen (g : gopb) : nat := match g_ws g with Some wl => length wl | None => O end.

(* the value returned for the constraint [g] built over the arguments [vl], [vw] *)
Definition pb_val (vl vw : val) (g : gopb) : val :=
  VStruct [relen vl (length (g_lits g)); relen vw (wlen g); VInt (g_atleast g)].

Lemma relen_same : forall h v ls, int_slice h v ls -> relen v (length ls) = v.
Proof.
  intros h v ls [(-> & ->)|(s & -> & Hok & Hrd)]; [reflexivity|].
  pose proof (length_sl_read h s Hok) as H. rewrite Hrd in H. destruct s as [a o len c]. cbn in H. subst len. reflexivity.
Qed.

(* everything that is true of a call of GtEq that does not panic, weights nil or non-empty *)
Lemma GtEq_total : forall h vl vw ls ws n,
  int_slice h vl ls -> int_slice h vw ws -> disjoint_vals vl vw ->
  (vw = VNil \/ (ws <> [] /\ length ls = length ws)) ->
  exists v h',
    run_to go_funs "GtEq" [vl; vw; VInt n] h (OReturn v h') /\
    gopb_of_rval (readback h' v) = Some (gt_eq ls ws n) /\
    length h' = length h /\
    (forall a, (forall s, vl = VSl s -> a <> s_arr s) -> (forall s, vw = VSl s -> a <> s_arr s) ->
               arr_of h' a = arr_of h a) /\
    (forall a, length (arr_of h' a) = length (arr_of h a)) /\
    (forall s, vl = VSl s ->
       sl_read h' s = g_lits (gt_eq ls ws n) ++
                      repeat (last ls 0) (length ls - length (g_lits (gt_eq ls ws n))) /\
       outside_same h h' s) /\
    (forall s, vw = VSl s -> exists wl, g_ws (gt_eq ls ws n) = Some wl /\
       sl_read h' s = wl ++ repeat (last ws 0) (length ws - length wl) /\
       outside_same h h' s) /\
    v = pb_val vl vw (gt_eq ls ws n).
Proof.
  intros h vl vw ls ws n Hl Hw Hdis [->|(Hws & Hlen)].
  - (* nil weights: nothing happens *)
    apply int_slice_nil in Hw. subst ws.
    exists (VStruct [vl; VNil; VInt n]), h.
    split; [enter; apply (runs_exec go_funs 5); [reflexivity|discriminate]|].
    split; [cbn [readback map gopb_of_rval gt_eq]; rewrite (int_slice_rl _ _ _ Hl); reflexivity|].
    split; [reflexivity|]. split; [reflexivity|]. split; [reflexivity|]. split; [|split].
    + intros s ->. apply int_slice_sl in Hl. destruct Hl as (Hok & Hrd).
      cbn [gt_eq g_lits]. rewrite Nat.sub_diag. cbn [repeat]. rewrite app_nil_r.
      split; [exact Hrd|]. split; reflexivity.
    + intros s Hs. discriminate.
    + unfold pb_val. cbn [gt_eq g_lits g_atleast relen]. rewrite (relen_same h vl ls Hl). reflexivity.
  - destruct Hw as [(-> & ->)|(sw & -> & Hokw & Hrdw)]; [congruence|].
    destruct Hl as [(-> & ->)|(sl & -> & Hokl & Hrdl)].
    { destruct ws; [congruence|discriminate]. }
    cbn [disjoint_vals] in Hdis. subst ls ws.
    destruct (gt_eq_loop (sl_read h sl) (sl_read h sw) n) as [[L W] nf] eqn:HL.
    assert (Hg : gt_eq (sl_read h sl) (sl_read h sw) n = GoPB L (Some W) nf) by (rewrite gt_eq_unfold by exact Hws; rewrite HL; reflexivity).
    rewrite Hg. cbn [g_lits g_ws].
    pose proof (length_sl_read h sl Hokl) as Hll. pose proof (length_sl_read h sw Hokw) as Hlw.
    destruct (GtEq_run h sl sw n L W nf Hokl Hokw Hdis Hws Hlen HL)
      as (h' & Hrun & Hh' & Hfr & Hlens & Hrl & Hrw & HLW & HLl & Hol & How).
    eexists. exists h'. split; [exact Hrun|].
    split.
    { cbn [readback map gopb_of_rval rl].
      rewrite (sl_read_shorter h' (s_arr sl) (s_off sl) (s_len sl) (s_cap sl)) by lia.
      rewrite (sl_read_shorter h' (s_arr sw) (s_off sw) (s_len sw) (s_cap sw)) by lia.
      replace (Slice (s_arr sl) (s_off sl) (s_len sl) (s_cap sl)) with sl by (destruct sl; reflexivity).
      replace (Slice (s_arr sw) (s_off sw) (s_len sw) (s_cap sw)) with sw by (destruct sw; reflexivity).
      rewrite Hrl, Hrw. rewrite !firstn_mid by reflexivity. reflexivity. }
    split; [exact Hh'|]. split.
    { intros a H1 H2. apply Hfr; [apply (H1 sl eq_refl)|apply (H2 sw eq_refl)]. }
    split; [exact Hlens|]. split; [|split].
    + intros s Hs. inversion Hs. subst s. rewrite Hll. split; [exact Hrl|exact Hol].
    + intros s Hs. inversion Hs. subst s. exists W. rewrite Hlw.
      split; [reflexivity|split; [exact Hrw|exact How]].
    + reflexivity.
Qed.

Theorem GtEq_refines : forall h vl vw ls ws n,
  int_slice h vl ls -> int_slice h vw ws -> disjoint_vals vl vw ->
  (vw = VNil \/ (ws <> [] /\ length ls = length ws)) ->
  exists fuel v h',
    run go_funs fuel "GtEq" [vl; vw; VInt n] h = OReturn v h' /\
    gopb_of_rval (readback h' v) = Some (gt_eq ls ws n) /\
    length h' = length h /\
    (forall a, (forall s, vl = VSl s -> a <> s_arr s) -> (forall s, vw = VSl s -> a <> s_arr s) ->
               arr_of h' a = arr_of h a).
Proof.
  intros h vl vw ls ws n Hl Hw Hdis Hc.
  destruct (GtEq_total h vl vw ls ws n Hl Hw Hdis Hc) as (v & h' & Hrun & Hg & Hh' & Hfr & _).
  destruct (run_to_fuel _ _ _ _ _ Hrun) as (f & Hf). exists f, v, h'. repeat split; assumption.
Qed.

(* no amount of fuel gives another result *)
Theorem GtEq_deterministic : forall h vl vw ls ws n fuel o,
  int_slice h vl ls -> int_slice h vw ws -> disjoint_vals vl vw ->
  (vw = VNil \/ (ws <> [] /\ length ls = length ws)) ->
  run go_funs fuel "GtEq" [vl; vw; VInt n] h = o -> o <> OFuel ->
  exists v h', o = OReturn v h' /\ gopb_of_rval (readback h' v) = Some (gt_eq ls ws n) /\
               length h' = length h.
Proof.
  intros h vl vw ls ws n fuel o Hl Hw Hdis Hc Ho N.
  destruct (GtEq_total h vl vw ls ws n Hl Hw Hdis Hc) as (v & h' & Hrun & Hg & Hh' & _).
  exists v, h'. split; [|split; assumption]. eapply run_to_unique; eassumption.
Qed.

(* what the caller's two slices hold afterwards: the result, then as many copies
   of the last input element as pairs were deleted; the rest of the two arrays
   is as before *)
Theorem GtEq_caller_after : forall h sl sw ls ws n,
  int_slice h (VSl sl) ls -> int_slice h (VSl sw) ws -> s_arr sl <> s_arr sw ->
  ws <> [] -> length ls = length ws ->
  exists fuel v h' wl,
    run go_funs fuel "GtEq" [VSl sl; VSl sw; VInt n] h = OReturn v h' /\
    g_ws (gt_eq ls ws n) = Some wl /\
    sl_read h' sl = g_lits (gt_eq ls ws n) ++ repeat (last ls 0) (length ls - length (g_lits (gt_eq ls ws n))) /\
    sl_read h' sw = wl ++ repeat (last ws 0) (length ws - length wl) /\
    outside_same h h' sl /\ outside_same h h' sw.
Proof.
  intros h sl sw ls ws n Hl Hw Hdis Hws Hlen.
  destruct (GtEq_total h (VSl sl) (VSl sw) ls ws n Hl Hw Hdis (or_intror (conj Hws Hlen)))
    as (v & h' & Hrun & Hg & Hh' & Hfr & Hlens & Hcl & Hcw & _).
  destruct (run_to_fuel _ _ _ _ _ Hrun) as (f & Hf).
  destruct (Hcl sl eq_refl) as (A1 & A2). destruct (Hcw sw eq_refl) as (wl & B1 & B2 & B3).
  exists f, v, h', wl.
  split; [exact Hf|split; [exact B1|split; [exact A1|split; [exact B2|split; [exact A2|exact B3]]]]].
Qed.

(* weights non-nil but of length 0: the code returns its arguments as they are,
   Weights a non-nil empty slice (the model [gt_eq _ [] _] says nil) *)
Theorem GtEq_empty_weights_observation : forall h vl sw n, s_len sw = O ->
  exists fuel, run go_funs fuel "GtEq" [vl; VSl sw; VInt n] h
               = OReturn (VStruct [vl; VSl sw; VInt n]) h.
Proof.
  intros h vl [a o len c] n H. cbn [s_len] in H. subst len.
  apply run_to_fuel. enter. apply (runs_exec go_funs 5); [reflexivity|discriminate].
Qed.

Lemma GtEq_panic_run : forall h vl vw ls ws n,
  int_slice h vl ls -> int_slice h vw ws -> ws <> [] -> length ls <> length ws ->
  run_to go_funs "GtEq" [vl; vw; VInt n] h OPanic.
Proof.
  intros h vl vw ls ws n Hl Hw Hws Hlen.
  destruct Hw as [(-> & ->)|(sw & -> & Hokw & Hrdw)]; [congruence|].
  pose proof (length_sl_read h sw Hokw) as Hlw. rewrite Hrdw in Hlw.
  assert (Hw0 : s_len sw <> O) by (destruct ws; [congruence|cbn [length] in Hlw; lia]).
  enter. apply runs_seq_abrupt; [|exact I].
  destruct Hl as [(-> & ->)|(sl & -> & Hokl & Hrdl)].
  - apply (runs_exec go_funs 2); [|discriminate]. gocbn.
    destruct (Z.of_nat (s_len sw) =? 0) eqn:E; [lia|]. cbn [negb].
    destruct (0 =? Z.of_nat (s_len sw)) eqn:E2; [lia|]. reflexivity.
  - pose proof (length_sl_read h sl Hokl) as Hll. rewrite Hrdl in Hll.
    apply (runs_exec go_funs 2); [|discriminate]. gocbn.
    destruct (Z.of_nat (s_len sw) =? 0) eqn:E; [lia|]. cbn [negb].
    destruct (Z.of_nat (s_len sl) =? Z.of_nat (s_len sw)) eqn:E2; [lia|]. reflexivity.
Qed.

Theorem GtEq_panics : forall h vl vw ls ws n,
  int_slice h vl ls -> int_slice h vw ws -> ws <> [] -> length ls <> length ws ->
  exists fuel, run go_funs fuel "GtEq" [vl; vw; VInt n] h = OPanic.
Proof. intros. apply run_to_fuel. eapply GtEq_panic_run; eassumption. Qed.

(* ------------------------------------------------------------------ LtEq *)

Lemma skipn_nth_cons : forall (l : list Z) j d, (j < length l)%nat ->
  skipn j l = nth j l d :: skipn (S j) l.
Proof.
  induction l as [|x l IH]; intros j d H; cbn [length] in H; [lia|].
  destruct j as [|j]; [reflexivity|]. cbn [skipn nth]. apply IH. lia.
Qed.

Lemma nth_PM : forall (P M Q : list Z) j d, (j < length M)%nat ->
  nth (length P + j) (P ++ M ++ Q) d = nth j M d.
Proof.
  intros P M Q j d H. rewrite app_nth2 by lia. replace (length P + j - length P)%nat with j by lia.
  apply app_nth1. exact H.
Qed.

Ltac rdg H1 H2 :=
  repeat (gocbn;
    first [ rewrite idx_in by lia | rewrite sub_in by lia | rewrite Nat2Z.id
          | rewrite arr_of_heap_write_same by lia
          | rewrite arr_of_heap_write_other by congruence
          | rewrite H1 | rewrite H2
          | rewrite write_PD1 by lia | rewrite nth_PD by lia | rewrite nth_PM by lia
          | progress unfold sl_read
          | progress unfold sub_slice
          | rewrite read_PDx by lia
          | rewrite leb_in by lia ]); gocbn; unfold set_local; gocbn.

Definition lt_body : stmt :=
  SSeq (SSetIdx (EVar "lits") (EVar "i") (ENeg (EIdx (EVar "lits") (EVar "i"))))
       (SSet "sum" (EBin Add (EVar "sum") (EIdx (EVar "weights") (EVar "i")))).

Lemma src_LtEq_shape : src_LtEq = FDef ["lits"; "weights"; "n"]
  (SSeq (SSet "sum" (EInt 0))
  (SSeq (SRange "i" "_" (EVar "lits") lt_body)
  (SSeq (SSet "n" (EBin Sub (EVar "sum") (EVar "n")))
  (SSeq (SCall "$1" "GtEq" [(EVar "lits"); (EVar "weights"); (EVar "n")])
  (SReturn (EVar "$1")))))).
Proof. reflexivity. Qed.

Section LtEqLoop.
Variables (h : heap) (al ol cl : nat) (PL QL ls : list Z) (n : Z).
Hypothesis Hal : (al < length h)%nat.
Hypothesis HPL : length PL = ol.
Hypothesis HAl : arr_of h al = PL ++ ls ++ QL.

Definition lt_sl : slice := Slice al ol (length ls) cl.

(* the array of lits after [j] turns *)
Definition lt_arr (j : nat) : list Z := PL ++ map Z.opp (firstn j ls) ++ skipn j ls ++ QL.

Definition lt_heap (j : nat) (hp : heap) : Prop :=
  length hp = length h /\ arr_of hp al = lt_arr j /\ forall a, a <> al -> arr_of hp a = arr_of h a.

Definition lt_loc (vw : val) (ws : list Z) (j : nat) : env :=
  [("lits", VSl lt_sl); ("weights", vw); ("n", VInt n); ("sum", VInt (zsum (firstn j ws)))].

Definition lt_I (vw : val) (ws : list Z) (j : nat) (st : state) : Prop :=
  (locals st = lt_loc vw ws j \/ exists z, locals st = lt_loc vw ws j ++ [("i", VInt z)]) /\ lt_heap j (hp st).

Lemma lt_arr_step : forall j, (j < length ls)%nat ->
  lt_arr j = PL ++ map Z.opp (firstn j ls) ++ nth j ls 0 :: skipn (S j) ls ++ QL /\
  lt_arr (S j) = PL ++ map Z.opp (firstn j ls) ++ (- nth j ls 0) :: skipn (S j) ls ++ QL.
Proof.
  intros j Hj. unfold lt_arr. split.
  - rewrite (skipn_nth_cons ls j 0 Hj). reflexivity.
  - rewrite (firstn_S_nth ls j 0 Hj), map_app. cbn [map]. rewrite <- !app_assoc. reflexivity.
Qed.

Lemma lt_I_0 : forall vw ws, lt_I vw ws O (St (lt_loc vw ws O) h).
Proof.
  intros vw ws. split; [left; reflexivity|]. cbn [hp]. unfold lt_heap, lt_arr. cbn [firstn map skipn app].
  split; [reflexivity|]. split; [exact HAl|]. intros a _. reflexivity.
Qed.

(* the first statement of the body: lits[j] changes sign *)
Lemma lt_heap_step : forall j hp0, (j < length ls)%nat -> lt_heap j hp0 ->
  lt_heap (S j) (heap_write hp0 al (ol + j) [- nth j ls 0]).
Proof.
  intros j hp0 Hj (H1 & H2 & H3). destruct (lt_arr_step j Hj) as (E1 & E2). unfold lt_heap.
  rewrite length_heap_write, arr_of_heap_write_same by lia. rewrite H2, E1, E2.
  split; [exact H1|]. split.
  - apply write_PD1. rewrite map_length, firstn_length_le by lia. lia.
  - intros a Ha. rewrite arr_of_heap_write_other by congruence. apply H3. exact Ha.
Qed.

Lemma lt_step : forall vw ws j st0, int_slice h vw ws -> (forall s, vw = VSl s -> s_arr s <> al) ->
  (j < length ls)%nat -> (j < length ws)%nat -> lt_I vw ws j st0 ->
  exists st1, runs go_funs lt_body (range_pre "i" "_" (Some lt_sl) j st0) (ONormal st1) /\ lt_I vw ws (S j) st1.
Proof.
  intros vw ws j [loc hp0] Hw Hdis Hj Hjw (Hloc & Hhp). cbn [locals hp] in *.
  destruct Hw as [(-> & ->)|(sw & -> & Hokw & Hrdw)]; [cbn [length] in Hjw; lia|].
  specialize (Hdis sw eq_refl).
  destruct (slice_split h sw Hokw) as (PW & QW & HAw & HPW). rewrite Hrdw in HAw.
  pose proof (length_sl_read h sw Hokw) as Hlw. rewrite Hrdw in Hlw.
  destruct sw as [aw ow lenw cw]. cbn [s_arr s_off s_len s_cap] in *. subst ow lenw.
  pose proof Hhp as (H1 & H2 & H3). destruct (lt_arr_step j Hj) as (E1 & E2). rewrite E1 in H2.
  assert (HAw0 : arr_of hp0 aw = PW ++ ws ++ QW) by (rewrite H3 by exact Hdis; exact HAw).
  exists (St (lt_loc (VSl (Slice aw (length PW) (length ws) cw)) ws (S j) ++ [("i", VInt (Z.of_nat j))]) (heap_write hp0 al (ol + j) [- nth j ls 0])).
  split; [|split; [right; eexists; reflexivity|apply lt_heap_step; assumption]].
  assert (HD1 : length (map Z.opp (firstn j ls)) = j) by (rewrite map_length, firstn_length_le; lia).
  pose proof (zsum_firstn_S ws j Hjw) as Hz.
  destruct Hloc as [->|(z & ->)]; apply (runs_exec go_funs 2); try discriminate;
    unfold lt_body, lt_loc, lt_sl; rewrite Hz; cbn [range_pre String.eqb Ascii.eqb Bool.eqb andb];
    rdg H2 HAw0; reflexivity.
Qed.

(* weights too short: lits[j] is still negated, then weights[j] panics *)
Lemma lt_step_panic : forall vw ws j st0, int_slice h vw ws ->
  (j < length ls)%nat -> j = length ws -> lt_I vw ws j st0 ->
  runs go_funs lt_body (range_pre "i" "_" (Some lt_sl) j st0) OPanic.
Proof.
  intros vw ws j [loc hp0] Hw Hj Hjw (Hloc & Hhp). cbn [locals hp] in *.
  pose proof Hhp as (H1 & H2 & H3). destruct (lt_arr_step j Hj) as (E1 & E2). rewrite E1 in H2.
  assert (HD1 : length (map Z.opp (firstn j ls)) = j) by (rewrite map_length, firstn_length_le; lia).
  destruct Hw as [(-> & ->)|(sw & -> & Hokw & Hrdw)].
  - destruct Hloc as [->|(z & ->)]; apply (runs_exec go_funs 2); try discriminate;
      unfold lt_body, lt_loc, lt_sl; cbn [range_pre String.eqb Ascii.eqb Bool.eqb andb];
      rdg H2 H2; reflexivity.
  - pose proof (length_sl_read h sw Hokw) as Hlw. rewrite Hrdw in Hlw.
    destruct sw as [aw ow lenw cw]. cbn [s_arr s_off s_len s_cap] in *. subst lenw.
    destruct Hloc as [->|(z & ->)]; apply (runs_exec go_funs 2); try discriminate;
      unfold lt_body, lt_loc, lt_sl; cbn [range_pre String.eqb Ascii.eqb Bool.eqb andb];
      rdg H2 H2; rewrite idx_out by lia; reflexivity.
Qed.

End LtEqLoop.

Lemma lt_arr_all : forall PL QL ls, lt_arr PL QL ls (length ls) = PL ++ map Z.opp ls ++ QL.
Proof. intros. unfold lt_arr. rewrite firstn_all, skipn_all. reflexivity. Qed.

Lemma lt_arr_length : forall PL QL ls j, length (lt_arr PL QL ls j) = length (PL ++ ls ++ QL).
Proof.
  intros PL QL ls j. unfold lt_arr. rewrite !app_length, map_length.
  rewrite <- (firstn_skipn j ls) at 3. rewrite app_length. lia.
Qed.

Lemma lt_heap_lens : forall h al PL QL ls j hp, arr_of h al = PL ++ ls ++ QL ->
  lt_heap h al PL QL ls j hp -> forall a, length (arr_of hp a) = length (arr_of h a).
Proof.
  intros h al PL QL ls j hp HAl (H1 & H2 & H3) a. destruct (Nat.eq_dec a al) as [->|Hne].
  - rewrite H2, HAl. apply lt_arr_length.
  - rewrite H3 by exact Hne. reflexivity.
Qed.

Definition lt_tail : stmt :=
  SSeq (SSet "n" (EBin Sub (EVar "sum") (EVar "n")))
  (SSeq (SCall "$1" "GtEq" [(EVar "lits"); (EVar "weights"); (EVar "n")])
  (SReturn (EVar "$1"))).

Lemma LtEq_tail : forall vl vw n sum loc h1 v h',
  (loc = [("lits", vl); ("weights", vw); ("n", VInt n); ("sum", VInt sum)] \/
   exists z, loc = [("lits", vl); ("weights", vw); ("n", VInt n); ("sum", VInt sum)] ++ [("i", VInt z)]) ->
  run_to go_funs "GtEq" [vl; vw; VInt (sum - n)] h1 (OReturn v h') ->
  runs go_funs lt_tail (St loc h1) (OReturn v h').
Proof.
  intros vl vw n sum loc h1 v h' Hloc Hrun. unfold lt_tail.
  destruct Hloc as [->|(z & ->)].
  - eapply runs_seq; [apply (runs_exec go_funs 1); [reflexivity|discriminate]|].
    eapply runs_seq; [eapply runs_call_run; [reflexivity|exact Hrun]|].
    apply (runs_exec go_funs 1); [reflexivity|discriminate].
  - eapply runs_seq; [apply (runs_exec go_funs 1); [reflexivity|discriminate]|].
    eapply runs_seq; [eapply runs_call_run; [reflexivity|exact Hrun]|].
    apply (runs_exec go_funs 1); [reflexivity|discriminate].
Qed.

Lemma LtEq_tail_panic : forall vl vw n sum loc h1,
  (loc = [("lits", vl); ("weights", vw); ("n", VInt n); ("sum", VInt sum)] \/
   exists z, loc = [("lits", vl); ("weights", vw); ("n", VInt n); ("sum", VInt sum)] ++ [("i", VInt z)]) ->
  run_to go_funs "GtEq" [vl; vw; VInt (sum - n)] h1 OPanic ->
  runs go_funs lt_tail (St loc h1) OPanic.
Proof.
  intros vl vw n sum loc h1 Hloc Hrun. unfold lt_tail.
  destruct Hloc as [->|(z & ->)].
  - eapply runs_seq; [apply (runs_exec go_funs 1); [reflexivity|discriminate]|].
    apply runs_seq_abrupt; [|exact I]. eapply runs_call_run_panic; [reflexivity|exact Hrun].
  - eapply runs_seq; [apply (runs_exec go_funs 1); [reflexivity|discriminate]|].
    apply runs_seq_abrupt; [|exact I]. eapply runs_call_run_panic; [reflexivity|exact Hrun].
Qed.

(* the first half of LtEq on a non-nil lits with at least as many weights:
   every literal negated in place, [sum] the sum of the first len(lits) weights *)
Lemma LtEq_first_half : forall h sl vw ws n,
  slice_ok h sl -> int_slice h vw ws -> (forall s, vw = VSl s -> s_arr s <> s_arr sl) ->
  (s_len sl <= length ws)%nat ->
  exists loc h1,
    runs go_funs (SRange "i" "_" (EVar "lits") lt_body)
      (St [("lits", VSl sl); ("weights", vw); ("n", VInt n); ("sum", VInt 0)] h) (ONormal (St loc h1)) /\
    (loc = [("lits", VSl sl); ("weights", vw); ("n", VInt n); ("sum", VInt (zsum (firstn (s_len sl) ws)))] \/
     exists z, loc = [("lits", VSl sl); ("weights", vw); ("n", VInt n);
                      ("sum", VInt (zsum (firstn (s_len sl) ws)))] ++ [("i", VInt z)]) /\
    length h1 = length h /\
    (forall a, a <> s_arr sl -> arr_of h1 a = arr_of h a) /\
    (forall a, length (arr_of h1 a) = length (arr_of h a)) /\
    sl_read h1 sl = map Z.opp (sl_read h sl).
Proof.
  intros h sl vw ws n Hokl Hw Hdis Hle.
  destruct (slice_split h sl Hokl) as (PL & QL & HAl & HPL).
  pose proof (length_sl_read h sl Hokl) as Hll. pose proof Hokl as (Hal & _).
  remember (sl_read h sl) as ls eqn:Els.
  destruct sl as [al ol lenl cl]. cbn [s_arr s_off s_len s_cap] in *. subst lenl.
  destruct (runs_range_inv go_funs "i" "_" (EVar "lits") lt_body
              (St (lt_loc al ol cl ls n vw ws O) h) (lt_sl al ol cl ls)
              (lt_I h al ol cl PL QL ls n vw ws)) as (st' & Hrun & HI).
  - reflexivity.
  - apply lt_I_0. exact HAl.
  - intros j st0 Hj HIj. cbn [s_len lt_sl] in Hj. apply (lt_step h al ol cl PL QL ls n Hal HPL); try assumption. lia.
  - destruct st' as [loc h1]. destruct HI as (Hloc & Hhp). cbn [s_len lt_sl locals hp] in *.
    exists loc, h1. split; [exact Hrun|]. split; [exact Hloc|].
    pose proof Hhp as (H1 & H2 & H3).
    split; [exact H1|]. split; [exact H3|]. split; [apply (lt_heap_lens _ _ _ _ _ _ _ HAl Hhp)|].
    unfold sl_read. cbn [s_arr s_off s_len]. rewrite H2, lt_arr_all.
    apply read_mid; [lia|]. rewrite map_length. reflexivity.
Qed.

(* everything that is true of a call of LtEq that does not panic, weights nil or non-empty *)
Lemma LtEq_total : forall h vl vw ls ws n,
  int_slice h vl ls -> int_slice h vw ws -> disjoint_vals vl vw ->
  length ls = length ws -> (vw = VNil \/ ws <> []) ->
  exists v h',
    run_to go_funs "LtEq" [vl; vw; VInt n] h (OReturn v h') /\
    gopb_of_rval (readback h' v) = Some (lt_eq ls ws n) /\
    length h' = length h /\
    (forall a, (forall s, vl = VSl s -> a <> s_arr s) -> (forall s, vw = VSl s -> a <> s_arr s) ->
               arr_of h' a = arr_of h a) /\
    (forall a, length (arr_of h' a) = length (arr_of h a)) /\
    (forall s, vl = VSl s ->
       sl_read h' s = g_lits (lt_eq ls ws n) ++
                      repeat (last (map Z.opp ls) 0) (length ls - length (g_lits (lt_eq ls ws n)))) /\
    (forall s, vw = VSl s -> exists wl, g_ws (lt_eq ls ws n) = Some wl /\
       sl_read h' s = wl ++ repeat (last ws 0) (length ws - length wl)) /\
    v = pb_val vl vw (lt_eq ls ws n).
Proof.
  intros h vl vw ls ws n Hl Hw Hdis Hlen Hc.
  destruct Hl as [(-> & ->)|(sl & -> & Hokl & Hrdl)].
  - (* nil lits: the loop does nothing *)
    assert (ws = []) by (destruct ws; [reflexivity|discriminate]). subst ws.
    destruct (GtEq_total h VNil vw [] [] (0 - n)) as (v & h' & Hrun & Hg & Hh' & Hfr & Hlens & Hcl & Hcw & Hv).
    { left. split; reflexivity. } { exact Hw. } { exact I. }
    { destruct Hc as [Hc|Hc]; [left; exact Hc|congruence]. }
    exists v, h'. split.
    { enter. eapply runs_seq; [apply (runs_exec go_funs 1); [reflexivity|discriminate]|].
      eapply runs_seq; [apply (runs_exec go_funs 1); [reflexivity|discriminate]|].
      apply (LtEq_tail VNil vw n 0); [left; reflexivity|exact Hrun]. }
    split; [exact Hg|]. split; [exact Hh'|]. split; [exact Hfr|]. split; [exact Hlens|].
    split; [intros s Hs; discriminate|]. split; [|exact Hv].
    intros s Hs. destruct (Hcw s Hs) as (wl & A & B & _). exists wl. split; assumption.
  - assert (Hdis' : forall s, vw = VSl s -> s_arr s <> s_arr sl).
    { intros s ->. cbn [disjoint_vals] in Hdis. congruence. }
    pose proof (length_sl_read h sl Hokl) as Hll. rewrite Hrdl in Hll.
    destruct (LtEq_first_half h sl vw ws n Hokl Hw Hdis' ltac:(lia))
      as (loc & h1 & Hrun1 & Hloc & Hh1 & Hfr1 & Hlens1 & Hrd1).
    rewrite Hrdl in Hrd1.
    assert (Hl1 : int_slice h1 (VSl sl) (map Z.opp ls)).
    { right. exists sl. split; [reflexivity|]. split; [|exact Hrd1].
      apply (slice_ok_lens h h1 sl Hh1 Hlens1 Hokl). }
    assert (Hw1 : int_slice h1 vw ws).
    { destruct Hw as [(-> & ->)|(sw & -> & Hokw & Hrdw)]; [left; split; reflexivity|].
      right. exists sw. split; [reflexivity|]. split; [apply (slice_ok_lens h h1 sw Hh1 Hlens1 Hokw)|].
      rewrite <- Hrdw. apply sl_read_ext. apply Hfr1. apply Hdis'. reflexivity. }
    destruct (GtEq_total h1 (VSl sl) vw (map Z.opp ls) ws (zsum (firstn (length ls) ws) - n) Hl1 Hw1 Hdis)
      as (v & h' & Hrun & Hg & Hh' & Hfr & Hlens & Hcl & Hcw & Hv).
    { destruct Hc as [Hc|Hc]; [left; exact Hc|right; split; [exact Hc|rewrite map_length; exact Hlen]]. }
    exists v, h'. split.
    { enter. eapply runs_seq; [apply (runs_exec go_funs 1); [reflexivity|discriminate]|].
      eapply runs_seq; [exact Hrun1|].
      rewrite <- Hll in Hloc.
      apply (LtEq_tail (VSl sl) vw n (zsum (firstn (length ls) ws))); [exact Hloc|exact Hrun]. }
    split; [exact Hg|]. split; [congruence|]. split.
    { intros a Ha1 Ha2. rewrite Hfr by assumption. apply Hfr1. apply (Ha1 sl eq_refl). }
    split; [intros a; rewrite Hlens; apply Hlens1|].
    unfold lt_eq. rewrite map_length in Hcl. split; [|split].
    + intros s Hs. apply (Hcl s Hs).
    + intros s Hs. destruct (Hcw s Hs) as (wl & A & B & _). exists wl. split; assumption.
    + exact Hv.
Qed.

Theorem LtEq_refines : forall h vl vw ls ws n,
  int_slice h vl ls -> int_slice h vw ws -> disjoint_vals vl vw ->
  length ls = length ws -> (vw = VNil \/ ws <> []) ->
  exists fuel v h',
    run go_funs fuel "LtEq" [vl; vw; VInt n] h = OReturn v h' /\
    gopb_of_rval (readback h' v) = Some (lt_eq ls ws n) /\
    length h' = length h /\
    (forall a, (forall s, vl = VSl s -> a <> s_arr s) -> (forall s, vw = VSl s -> a <> s_arr s) ->
               arr_of h' a = arr_of h a).
Proof.
  intros h vl vw ls ws n Hl Hw Hdis Hlen Hc.
  destruct (LtEq_total h vl vw ls ws n Hl Hw Hdis Hlen Hc) as (v & h' & Hrun & Hg & Hh' & Hfr & _).
  destruct (run_to_fuel _ _ _ _ _ Hrun) as (f & Hf). exists f, v, h'. repeat split; assumption.
Qed.

(* what the caller's slices hold after LtEq: as after GtEq on the negated literals *)
Theorem LtEq_caller_after : forall h sl sw ls ws n,
  int_slice h (VSl sl) ls -> int_slice h (VSl sw) ws -> s_arr sl <> s_arr sw ->
  ws <> [] -> length ls = length ws ->
  exists fuel v h' wl,
    run go_funs fuel "LtEq" [VSl sl; VSl sw; VInt n] h = OReturn v h' /\
    g_ws (lt_eq ls ws n) = Some wl /\
    sl_read h' sl = g_lits (lt_eq ls ws n) ++
                    repeat (last (map Z.opp ls) 0) (length ls - length (g_lits (lt_eq ls ws n))) /\
    sl_read h' sw = wl ++ repeat (last ws 0) (length ws - length wl).
Proof.
  intros h sl sw ls ws n Hl Hw Hdis Hws Hlen.
  destruct (LtEq_total h (VSl sl) (VSl sw) ls ws n Hl Hw Hdis Hlen (or_intror Hws))
    as (v & h' & Hrun & Hg & Hh' & Hfr & Hlens & Hcl & Hcw & _).
  destruct (run_to_fuel _ _ _ _ _ Hrun) as (f & Hf).
  destruct (Hcw sw eq_refl) as (wl & B1 & B2).
  exists f, v, h', wl. split; [exact Hf|split; [exact B1|split; [exact (Hcl sl eq_refl)|exact B2]]].
Qed.

(* no literals, weights non-nil of length 0: the arguments come back as they
   are with AtLeast = 0 - n, Weights a non-nil empty slice (the model says nil) *)
Theorem LtEq_empty_weights_observation : forall h vl sw n,
  (vl = VNil \/ exists s, vl = VSl s /\ s_len s = O) -> s_len sw = O ->
  exists fuel, run go_funs fuel "LtEq" [vl; VSl sw; VInt n] h
               = OReturn (VStruct [vl; VSl sw; VInt (0 - n)]) h.
Proof.
  intros h vl [a o len c] n Hvl H. cbn [s_len] in H. subst len.
  apply run_to_fuel. enter.
  destruct Hvl as [->|([a' o' len' c'] & -> & H')].
  - apply (runs_exec go_funs 10); [reflexivity|discriminate].
  - cbn [s_len] in H'. subst len'. apply (runs_exec go_funs 10); [reflexivity|discriminate].
Qed.

Lemma LtEq_panic_run : forall h vl vw ls ws n,
  int_slice h vl ls -> int_slice h vw ws -> disjoint_vals vl vw -> length ls <> length ws ->
  run_to go_funs "LtEq" [vl; vw; VInt n] h OPanic.
Proof.
  intros h vl vw ls ws n Hl Hw Hdis Hlen.
  destruct Hl as [(-> & ->)|(sl & -> & Hokl & Hrdl)].
  - (* nil lits, some weights: GtEq panics *)
    assert (Hws : ws <> []) by (destruct ws; [cbn [length] in Hlen; congruence|discriminate]).
    enter. eapply runs_seq; [apply (runs_exec go_funs 1); [reflexivity|discriminate]|].
    eapply runs_seq; [apply (runs_exec go_funs 1); [reflexivity|discriminate]|].
    apply (LtEq_tail_panic VNil vw n 0); [left; reflexivity|].
    apply (GtEq_panic_run h VNil vw [] ws); try assumption. left. split; reflexivity.
  - assert (Hdis' : forall s, vw = VSl s -> s_arr s <> s_arr sl).
    { intros s ->. cbn [disjoint_vals] in Hdis. congruence. }
    pose proof (length_sl_read h sl Hokl) as Hll. rewrite Hrdl in Hll.
    destruct (Nat.lt_ge_cases (length ws) (length ls)) as [Hlt|Hge].
    + (* fewer weights than lits: weights[len(weights)] panics inside the loop *)
      destruct (slice_split h sl Hokl) as (PL & QL & HAl & HPL). rewrite Hrdl in HAl.
      pose proof Hokl as (Hal & _).
      destruct sl as [al ol lenl cl]. cbn [s_arr s_off s_len s_cap] in *. subst lenl.
      enter. eapply runs_seq; [apply (runs_exec go_funs 1); [reflexivity|discriminate]|].
      apply runs_seq_abrupt; [|exact I].
      apply (runs_range_inv_abrupt go_funs "i" "_" (EVar "lits") lt_body
               (St (lt_loc al ol cl ls n vw ws O) h) (lt_sl al ol cl ls)
               (lt_I h al ol cl PL QL ls n vw ws) (length ws) OPanic).
      * reflexivity.
      * apply lt_I_0. exact HAl.
      * intros j st0 Hj HIj. apply (lt_step h al ol cl PL QL ls n Hal HPL); try assumption. lia.
      * intros st0 HIj. apply (lt_step_panic h al ol cl PL QL ls n Hal HPL vw ws); try assumption. reflexivity.
      * exact I.
      * exact Hlt.
    + (* more weights than lits: the loop ends, GtEq panics *)
      destruct (LtEq_first_half h sl vw ws n Hokl Hw Hdis' ltac:(lia))
        as (loc & h1 & Hrun1 & Hloc & Hh1 & Hfr1 & Hlens1 & Hrd1).
      rewrite Hrdl in Hrd1.
      assert (Hl1 : int_slice h1 (VSl sl) (map Z.opp ls)).
      { right. exists sl. split; [reflexivity|]. split; [|exact Hrd1].
        apply (slice_ok_lens h h1 sl Hh1 Hlens1 Hokl). }
      assert (Hw1 : int_slice h1 vw ws).
      { destruct Hw as [(-> & ->)|(sw & -> & Hokw & Hrdw)]; [left; split; reflexivity|].
        right. exists sw. split; [reflexivity|]. split; [apply (slice_ok_lens h h1 sw Hh1 Hlens1 Hokw)|].
        rewrite <- Hrdw. apply sl_read_ext. apply Hfr1. apply Hdis'. reflexivity. }
      enter. eapply runs_seq; [apply (runs_exec go_funs 1); [reflexivity|discriminate]|].
      eapply runs_seq; [exact Hrun1|].
      apply (LtEq_tail_panic (VSl sl) vw n (zsum (firstn (s_len sl) ws))); [exact Hloc|].
      apply (GtEq_panic_run h1 (VSl sl) vw (map Z.opp ls) ws); try assumption.
      * destruct ws; [cbn [length] in *; lia|discriminate].
      * rewrite map_length. exact Hlen.
Qed.

Theorem LtEq_panics : forall h vl vw ls ws n,
  int_slice h vl ls -> int_slice h vw ws -> disjoint_vals vl vw -> length ls <> length ws ->
  exists fuel, run go_funs fuel "LtEq" [vl; vw; VInt n] h = OPanic.
Proof. intros. apply run_to_fuel. eapply LtEq_panic_run; eassumption. Qed.

(* ------------------------------------------------------------------ Eq *)

Definition list_val (l : list val) : val := match l with [] => VNil | _ => VList l end.

Definition eq_tail : stmt :=
  SSeq (SSet "res" ENil)
  (SSeq (SIf (EBin Gt (EFld (EVar "ge") 2) (EInt 0)) (SAppendV "res" (EVar "res") (EVar "ge")) SSkip)
  (SSeq (SIf (EBin Gt (EFld (EVar "le") 2) (EInt 0)) (SAppendV "res" (EVar "res") (EVar "le")) SSkip)
  (SReturn (EVar "res")))).

Lemma Eq_tail_run : forall v1 v2 v3 v4 v5 f1 f2 d1 g1 g2 d2 h6,
  runs go_funs eq_tail
    (St [("lits", v1); ("weights", v2); ("n", v3); ("lits2", v4); ("weights2", v5);
         ("ge", VStruct [f1; f2; VInt d1]); ("le", VStruct [g1; g2; VInt d2])] h6)
    (OReturn (list_val ((if 0 <? d1 then [VStruct [f1; f2; VInt d1]] else []) ++
                        (if 0 <? d2 then [VStruct [g1; g2; VInt d2]] else []))) h6).
Proof.
  intros. apply (runs_exec go_funs 6); [|discriminate]. unfold eq_tail. gocbn.
  destruct (0 <? d1); gocbn; unfold set_local; gocbn; destruct (0 <? d2); reflexivity.
Qed.

Lemma arr_of_alloc2_old : forall (h : heap) X Y a, (a < length h)%nat ->
  arr_of ((h ++ [X]) ++ [Y]) a = arr_of h a.
Proof.
  intros h X Y a H. rewrite arr_of_alloc_old by (rewrite length_alloc; lia). apply arr_of_alloc_old. exact H.
Qed.

Lemma arr_of_alloc2_fst : forall (h : heap) X Y, arr_of ((h ++ [X]) ++ [Y]) (length h) = X.
Proof.
  intros h X Y. rewrite arr_of_alloc_old by (rewrite length_alloc; lia). apply arr_of_alloc_new.
Qed.

Lemma arr_of_alloc2_snd : forall (h : heap) X Y, arr_of ((h ++ [X]) ++ [Y]) (S (length h)) = Y.
Proof. intros h X Y. rewrite <- (length_alloc h X). apply arr_of_alloc_new. Qed.

Lemma write_at_0_all : forall ys M, length ys = length M -> write_at O ys M = ys.
Proof.
  intros ys M H. rewrite <- (app_nil_r M). rewrite write_at_0_app by exact H. apply app_nil_r.
Qed.

Lemma eq_heap_copy1 : forall h s ls X, slice_ok h s -> sl_read h s = ls ->
  heap_write ((h ++ [repeat 0 (length ls)]) ++ [X]) (length h) O
             (firstn (length ls) (sl_read ((h ++ [repeat 0 (length ls)]) ++ [X]) s))
  = (h ++ [ls]) ++ [X].
Proof.
  intros h s ls X Hok Hrd. pose proof Hok as (Ha & _).
  rewrite sl_read_alloc_old by (rewrite length_alloc; lia). rewrite sl_read_alloc_old by exact Ha.
  rewrite Hrd, firstn_all.
  rewrite heap_write_alloc_old by (rewrite length_alloc; lia). rewrite heap_write_alloc_new.
  rewrite write_at_0_all by (rewrite repeat_length; reflexivity). reflexivity.
Qed.

Lemma eq_heap_copy2 : forall h s ls ws, slice_ok h s -> sl_read h s = ws ->
  heap_write ((h ++ [ls]) ++ [repeat 0 (length ws)]) (S (length h)) O
             (firstn (length ws) (sl_read ((h ++ [ls]) ++ [repeat 0 (length ws)]) s))
  = (h ++ [ls]) ++ [ws].
Proof.
  intros h s ls ws Hok Hrd. pose proof Hok as (Ha & _).
  rewrite sl_read_alloc_old by (rewrite length_alloc; lia). rewrite sl_read_alloc_old by exact Ha.
  rewrite Hrd, firstn_all. rewrite <- (length_alloc h ls). rewrite heap_write_alloc_new.
  rewrite write_at_0_all by (rewrite repeat_length; reflexivity). reflexivity.
Qed.

Lemma int_slice_fresh : forall (h : heap) a l, arr_of h a = l -> (a < length h)%nat ->
  int_slice h (VSl (Slice a O (length l) (length l))) l.
Proof.
  intros h a l Ha Hlt. right. eexists. split; [reflexivity|]. split.
  - unfold slice_ok. cbn [s_arr s_off s_len s_cap]. rewrite Ha. repeat split; try lia.
  - unfold sl_read. cbn [s_arr s_off s_len]. rewrite Ha. cbn [skipn]. apply firstn_all.
Qed.

Lemma src_Eq_shape : src_Eq = FDef ["lits"; "weights"; "n"]
    (SSeq (SMake "lits2" (ELen (EVar "lits")))
      (SSeq (SMake "weights2" (ELen (EVar "weights")))
      (SSeq (SCopy (EVar "lits2") (EVar "lits"))
      (SSeq (SCopy (EVar "weights2") (EVar "weights"))
      (SSeq (SCall "ge" "GtEq" [(EVar "lits2"); (EVar "weights2"); (EVar "n")])
      (SSeq (SCall "le" "LtEq" [(EVar "lits"); (EVar "weights"); (EVar "n")])
      eq_tail)))))).
Proof. reflexivity. Qed.

(* the two fresh headers of Eq *)
Definition eq_l2 (h : heap) (k : nat) : val := VSl (Slice (length h) O k k).
Definition eq_w2 (h : heap) (k : nat) : val := VSl (Slice (S (length h)) O k k).

Lemma Eq_total : forall h sl sw ls ws n,
  int_slice h (VSl sl) ls -> int_slice h (VSl sw) ws -> s_arr sl <> s_arr sw ->
  length ls = length ws -> ws <> [] ->
  exists v h',
    run_to go_funs "Eq" [VSl sl; VSl sw; VInt n] h (OReturn v h') /\
    gopbs_of_rval (readback h' v) = Some (eq_ ls ws n) /\
    length h' = S (S (length h)) /\
    (forall a, (a < length h)%nat -> a <> s_arr sl -> a <> s_arr sw -> arr_of h' a = arr_of h a) /\
    sl_read h' sl = g_lits (lt_eq ls ws n) ++
                    repeat (last (map Z.opp ls) 0) (length ls - length (g_lits (lt_eq ls ws n))) /\
    (exists wl, g_ws (lt_eq ls ws n) = Some wl /\
                sl_read h' sw = wl ++ repeat (last ws 0) (length ws - length wl)) /\
    v = list_val ((if 0 <? g_atleast (gt_eq ls ws n)
                   then [pb_val (eq_l2 h (length ls)) (eq_w2 h (length ws)) (gt_eq ls ws n)] else []) ++
                  (if 0 <? g_atleast (lt_eq ls ws n)
                   then [pb_val (VSl sl) (VSl sw) (lt_eq ls ws n)] else [])).
Proof.
  intros h sl sw ls ws n Hl Hw Hdis Hlen Hws.
  pose proof (int_slice_sl _ _ _ Hl) as (Hokl & Hrdl). pose proof (int_slice_sl _ _ _ Hw) as (Hokw & Hrdw).
  pose proof (length_sl_read h sl Hokl) as Hll. rewrite Hrdl in Hll.
  pose proof (length_sl_read h sw Hokw) as Hlw. rewrite Hrdw in Hlw.
  pose proof Hokl as (Hal & _). pose proof Hokw as (Haw & _).
  set (h4 := (h ++ [ls]) ++ [ws]).
  assert (Hh4 : length h4 = S (S (length h))) by (unfold h4; rewrite !length_alloc; reflexivity).
  (* GtEq on the copies *)
  assert (Hl4 : int_slice h4 (eq_l2 h (length ls)) ls).
  { apply int_slice_fresh; [apply arr_of_alloc2_fst|lia]. }
  assert (Hw4 : int_slice h4 (eq_w2 h (length ws)) ws).
  { apply int_slice_fresh; [apply arr_of_alloc2_snd|lia]. }
  destruct (GtEq_total h4 (eq_l2 h (length ls)) (eq_w2 h (length ws)) ls ws n Hl4 Hw4)
    as (vge & h5 & Hrun5 & Hg5 & Hh5 & Hfr5 & Hlens5 & _ & _ & Hv5).
  { cbn [disjoint_vals eq_l2 eq_w2 s_arr]. lia. }
  { right. split; assumption. }
  (* LtEq on the originals *)
  assert (Hold5 : forall a, (a < length h)%nat -> arr_of h5 a = arr_of h a).
  { intros a Ha. rewrite Hfr5.
    - apply arr_of_alloc2_old. exact Ha.
    - intros s Hs. inversion Hs. cbn [s_arr]. lia.
    - intros s Hs. inversion Hs. cbn [s_arr]. lia. }
  assert (Hok5 : forall s, slice_ok h s -> slice_ok h5 s).
  { intros s Hs. apply (slice_ok_lens h4 h5 s Hh5 Hlens5). unfold h4. apply slice_ok_alloc, slice_ok_alloc. exact Hs. }
  assert (Hl5 : int_slice h5 (VSl sl) ls).
  { right. exists sl. split; [reflexivity|]. split; [apply Hok5; exact Hokl|].
    rewrite <- Hrdl. apply sl_read_ext. apply Hold5. exact Hal. }
  assert (Hw5 : int_slice h5 (VSl sw) ws).
  { right. exists sw. split; [reflexivity|]. split; [apply Hok5; exact Hokw|].
    rewrite <- Hrdw. apply sl_read_ext. apply Hold5. exact Haw. }
  destruct (LtEq_total h5 (VSl sl) (VSl sw) ls ws n Hl5 Hw5 Hdis Hlen (or_intror Hws))
    as (vle & h6 & Hrun6 & Hg6 & Hh6 & Hfr6 & Hlens6 & Hcl6 & Hcw6 & Hv6).
  assert (Hfr6' : forall a, a <> s_arr sl -> a <> s_arr sw -> arr_of h6 a = arr_of h5 a).
  { intros a H1 H2. apply Hfr6; intros s Hs; inversion Hs; subst s; assumption. }
  exists (list_val ((if 0 <? g_atleast (gt_eq ls ws n) then [vge] else []) ++
                    (if 0 <? g_atleast (lt_eq ls ws n) then [vle] else []))), h6.
  split; [|split; [|split; [|split; [|split; [|split]]]]].
  - eapply run_to_intro; [reflexivity|reflexivity|]. rewrite src_Eq_shape. cbn [f_body].
    eapply runs_seq.
    { apply runs_make with (k := Z.of_nat (s_len sl)); [reflexivity|lia]. }
    cbn [locals hp upd String.eqb Ascii.eqb Bool.eqb andb]. rewrite Nat2Z.id.
    eapply runs_seq.
    { apply runs_make with (k := Z.of_nat (s_len sw)); [reflexivity|lia]. }
    cbn [locals hp upd String.eqb Ascii.eqb Bool.eqb andb]. rewrite Nat2Z.id, length_alloc.
    rewrite <- Hll, <- Hlw.
    eapply runs_seq.
    { apply (runs_exec go_funs 1); [|discriminate]. gocbn. rewrite (eq_heap_copy1 h sl ls _ Hokl Hrdl). reflexivity. }
    eapply runs_seq.
    { apply (runs_exec go_funs 1); [|discriminate]. gocbn. rewrite (eq_heap_copy2 h sw ls ws Hokw Hrdw). reflexivity. }
    eapply runs_seq.
    { eapply runs_call_run; [reflexivity|]. cbn [hp]. exact Hrun5. }
    eapply runs_seq.
    { eapply runs_call_run; [reflexivity|]. cbn [hp]. exact Hrun6. }
    cbn [locals hp upd String.eqb Ascii.eqb Bool.eqb andb].
    rewrite Hv5, Hv6. unfold pb_val. apply Eq_tail_run.
  - (* the value read back *)
    assert (Hge6 : readback h6 vge = readback h5 vge).
    { rewrite Hv5. unfold pb_val, eq_l2, eq_w2. cbn [relen readback map s_arr s_off s_cap].
      rewrite (sl_read_ext h5 h6), (sl_read_ext h5 h6 (Slice (S (length h)) _ _ _)); [reflexivity| |];
        cbn [s_arr]; apply Hfr6'; lia. }
    unfold eq_.
    destruct (0 <? g_atleast (gt_eq ls ws n)); destruct (0 <? g_atleast (lt_eq ls ws n));
      cbn [app list_val readback map gopbs_of_rval gopbs_of_rvals]; rewrite ?Hge6, ?Hg5, ?Hg6; reflexivity.
  - congruence.
  - intros a Ha H1 H2. rewrite Hfr6' by assumption. apply Hold5. exact Ha.
  - apply (Hcl6 sl eq_refl).
  - apply (Hcw6 sw eq_refl).
  - rewrite Hv5, Hv6. reflexivity.
Qed.

Theorem Eq_refines : forall h vl vw ls ws n,
  int_slice h vl ls -> int_slice h vw ws -> disjoint_vals vl vw ->
  length ls = length ws -> ws <> [] ->
  exists fuel v h',
    run go_funs fuel "Eq" [vl; vw; VInt n] h = OReturn v h' /\
    gopbs_of_rval (readback h' v) = Some (eq_ ls ws n) /\
    (v = VNil \/ exists l, v = VList l) /\
    length h' = S (S (length h)) /\
    (forall a, (a < length h)%nat ->
               (forall s, vl = VSl s -> a <> s_arr s) -> (forall s, vw = VSl s -> a <> s_arr s) ->
               arr_of h' a = arr_of h a) /\
    (* what the caller's two slices hold afterwards *)
    (forall s, vl = VSl s ->
       sl_read h' s = g_lits (lt_eq ls ws n) ++
                      repeat (last (map Z.opp ls) 0) (length ls - length (g_lits (lt_eq ls ws n)))) /\
    (forall s, vw = VSl s -> exists wl, g_ws (lt_eq ls ws n) = Some wl /\
       sl_read h' s = wl ++ repeat (last ws 0) (length ws - length wl)).
Proof.
  intros h vl vw ls ws n Hl Hw Hdis Hlen Hws.
  destruct Hw as [(-> & ->)|(sw & -> & Hokw & Hrdw)]; [congruence|].
  destruct Hl as [(-> & ->)|(sl & -> & Hokl & Hrdl)]; [destruct ws; [congruence|discriminate]|].
  cbn [disjoint_vals] in Hdis.
  destruct (Eq_total h sl sw ls ws n) as (v & h' & Hrun & Hg & Hh' & Hfr & Hcl & Hcw & Hv); try assumption.
  { right. exists sl. repeat split; try assumption; apply Hokl. }
  { right. exists sw. repeat split; try assumption; apply Hokw. }
  destruct (run_to_fuel _ _ _ _ _ Hrun) as (f & Hf). exists f, v, h'.
  split; [exact Hf|]. split; [exact Hg|]. split.
  { rewrite Hv. destruct (0 <? g_atleast (gt_eq ls ws n)); destruct (0 <? g_atleast (lt_eq ls ws n));
      cbn [app list_val]; [right|right|right|left]; try reflexivity; eexists; reflexivity. }
  split; [exact Hh'|]. split.
  { intros a Ha H1 H2. apply Hfr; [exact Ha|apply (H1 sl eq_refl)|apply (H2 sw eq_refl)]. }
  split.
  - intros s Hs. inversion Hs. subst s. exact Hcl.
  - intros s Hs. inversion Hs. subst s. exact Hcw.
Qed.

(* ---- Eq on no literals and no weights *)

Lemma set_arr_id : forall a (h : heap), set_arr a (arr_of h a) h = h.
Proof.
  unfold arr_of. induction a as [|a IH]; intros h; destruct h as [|x h]; try reflexivity.
  cbn [set_arr nth]. rewrite IH. reflexivity.
Qed.

Lemma heap_write_nil : forall h a o, heap_write h a o [] = h.
Proof. intros h a o. unfold heap_write. rewrite write_at_nil. apply set_arr_id. Qed.

(* an int-slice value without elements: nil, or a header of length 0 *)
Definition empty_val (v : val) : Prop := v = VNil \/ exists s, v = VSl s /\ s_len s = O.

Lemma GtEq_empty_run : forall h vl sw n, s_len sw = O ->
  run_to go_funs "GtEq" [vl; VSl sw; VInt n] h (OReturn (VStruct [vl; VSl sw; VInt n]) h).
Proof.
  intros h vl [a o len c] n H. cbn [s_len] in H. subst len.
  enter. apply (runs_exec go_funs 5); [reflexivity|discriminate].
Qed.

Lemma LtEq_empty_run : forall h vl vw n, empty_val vl -> empty_val vw ->
  run_to go_funs "LtEq" [vl; vw; VInt n] h (OReturn (VStruct [vl; vw; VInt (0 - n)]) h).
Proof.
  intros h vl vw n Hl Hw.
  destruct Hl as [->|([a o len c] & -> & H)]; destruct Hw as [->|([a' o' len' c'] & -> & H')];
    cbn [s_len] in *; subst; enter; (apply (runs_exec go_funs 10); [reflexivity|discriminate]).
Qed.

(* Eq(lits, weights, n) with len(lits) = len(weights) = 0: the copies are two
   fresh NON-NIL empty slices, so a kept [ge] has Weights non-nil and empty
   (the model [eq_ [] [] n] says nil); [le] carries the arguments themselves *)
Theorem Eq_empty_observation : forall h vl vw n, empty_val vl -> empty_val vw ->
  exists fuel, run go_funs fuel "Eq" [vl; vw; VInt n] h =
    OReturn (list_val ((if 0 <? n then [VStruct [eq_l2 h O; eq_w2 h O; VInt n]] else []) ++
                       (if 0 <? 0 - n then [VStruct [vl; vw; VInt (0 - n)]] else [])))
            ((h ++ [[]]) ++ [[]]).
Proof.
  intros h vl vw n Hl Hw. apply run_to_fuel.
  eapply run_to_intro; [reflexivity|reflexivity|]. rewrite src_Eq_shape. cbn [f_body].
  assert (El : eval (St [("lits", vl); ("weights", vw); ("n", VInt n)] h) (ELen (EVar "lits")) = EV (VInt 0)).
  { destruct Hl as [->|(s & -> & H)]; gocbn; [reflexivity|rewrite H; reflexivity]. }
  eapply runs_seq; [apply runs_make with (k := 0); [exact El|lia]|].
  cbn [locals hp upd String.eqb Ascii.eqb Bool.eqb andb Z.to_nat repeat].
  eapply runs_seq.
  { apply runs_make with (k := 0); [|lia].
    destruct Hw as [->|(s & -> & H)]; gocbn; [reflexivity|rewrite H; reflexivity]. }
  cbn [locals hp upd String.eqb Ascii.eqb Bool.eqb andb Z.to_nat repeat]. rewrite length_alloc.
  eapply runs_seq.
  { apply (runs_exec go_funs 1); [|discriminate].
    destruct Hl as [->|(s & -> & H)]; gocbn; cbn [firstn]; rewrite heap_write_nil; reflexivity. }
  eapply runs_seq.
  { apply (runs_exec go_funs 1); [|discriminate].
    destruct Hw as [->|(s & -> & H)]; gocbn; cbn [firstn]; rewrite heap_write_nil; reflexivity. }
  eapply runs_seq.
  { eapply runs_call_run; [reflexivity|]. cbn [hp]. apply GtEq_empty_run. reflexivity. }
  eapply runs_seq.
  { eapply runs_call_run; [reflexivity|]. cbn [hp]. apply LtEq_empty_run; assumption. }
  cbn [locals hp upd String.eqb Ascii.eqb Bool.eqb andb].
  apply Eq_tail_run.
Qed.

(* ------------------------------------------------------------------ the remaining statements *)

Lemma sl_read_fresh : forall (h : heap) X c, sl_read (h ++ [X]) (Slice (length h) O (length X) c) = X.
Proof.
  intros h X c. unfold sl_read. cbn [s_arr s_off s_len]. rewrite arr_of_alloc_new. cbn [skipn].
  apply firstn_all.
Qed.

Lemma int_slice_alloc : forall h X v ls, int_slice h v ls -> int_slice (h ++ [X]) v ls.
Proof.
  intros h X v ls [(-> & ->)|(s & -> & Hok & Hrd)]; [left; split; reflexivity|].
  right. exists s. split; [reflexivity|]. split; [apply slice_ok_alloc; exact Hok|].
  rewrite sl_read_alloc_old by apply Hok. exact Hrd.
Qed.

Theorem AtMost_refines : forall h vl ls n, int_slice h vl ls ->
  exists fuel v h', run go_funs fuel "AtMost" [vl; VInt n] h = OReturn v h' /\
    gopb_of_rval (readback h' v) = Some (at_most ls n) /\
    h' = h ++ [map Z.opp ls] /\ firstn (length h) h' = h /\ length h' = S (length h).
Proof.
  intros h vl ls n Hl. destruct (run_to_fuel _ _ _ _ _ (AtMost_run h vl ls n Hl)) as (f & Hf).
  eexists f, _, _. split; [exact Hf|]. split; [|split; [reflexivity|split; [apply firstn_alloc|apply length_alloc]]].
  cbn [readback map gopb_of_rval rl]. rewrite <- (map_length Z.opp ls) at 1 2. rewrite sl_read_fresh.
  reflexivity.
Qed.

Theorem AtMost1_refines : forall h vl ls, int_slice h vl ls ->
  exists fuel v h', run go_funs fuel "AtMost1" [vl] h = OReturn v h' /\
    gocard_of_rval (readback h' v) = Some (at_most1 ls) /\
    h' = h ++ [map Z.opp ls] /\ firstn (length h) h' = h /\ length h' = S (length h).
Proof.
  intros h vl ls Hl. destruct (run_to_fuel _ _ _ _ _ (AtMost1_run h vl ls Hl)) as (f & Hf).
  eexists f, _, _. split; [exact Hf|]. split; [|split; [reflexivity|split; [apply firstn_alloc|apply length_alloc]]].
  cbn [readback map gocard_of_rval rl]. rewrite <- (map_length Z.opp ls) at 1 2. rewrite sl_read_fresh.
  reflexivity.
Qed.

Fixpoint gocards_of_rvals (l : list rval) : option (list gocard) :=
  match l with
  | [] => Some []
  | r :: t => match gocard_of_rval r, gocards_of_rvals t with
              | Some g, Some gs => Some (g :: gs) | _, _ => None end
  end.

Theorem Exactly1_refines : forall h vl ls, int_slice h vl ls ->
  exists fuel c1 c2 h', run go_funs fuel "Exactly1" [vl] h = OReturn (VList [c1; c2]) h' /\
    readback h' (VList [c1; c2]) = RList [readback h' c1; readback h' c2] /\
    gocards_of_rvals [readback h' c1; readback h' c2] = Some (exactly1 ls) /\
    h' = h ++ [map Z.opp ls] /\ firstn (length h) h' = h.
Proof.
  intros h vl ls Hl. destruct (run_to_fuel _ _ _ _ _ (Exactly1_run h vl ls Hl)) as (f & Hf).
  eexists f, _, _, _. split; [exact Hf|]. split; [reflexivity|].
  split; [|split; [reflexivity|apply firstn_alloc]].
  cbn [readback map gocards_of_rvals gocard_of_rval rl].
  rewrite (int_slice_rl _ _ _ (int_slice_alloc h (map Z.opp ls) vl ls Hl)).
  rewrite <- (map_length Z.opp ls) at 1 2. rewrite sl_read_fresh. reflexivity.
Qed.

Theorem WeightSum_refines : forall h vl vw ls ws d, int_slice h vl ls -> int_slice h vw ws ->
  exists fuel, run go_funs fuel "PBConstr.WeightSum" [VStruct [vl; vw; VInt d]] h
    = OReturn (VInt (weight_sum (GoPB ls (ws_opt vw ws) d))) h.
Proof. intros h vl vw ls ws d Hl Hw. apply run_to_fuel. apply WeightSum_run; assumption. Qed.

(* ---- Eq panics exactly when the two lengths differ *)

Lemma eval_len_int_slice : forall h v ls loc x, int_slice h v ls -> lookup x loc = Some v ->
  eval (St loc h) (ELen (EVar x)) = EV (VInt (Z.of_nat (length ls))).
Proof.
  intros h v ls loc x Hv Hx. cbn [eval locals]. rewrite Hx. cbn [ebind].
  destruct Hv as [(-> & ->)|(s & -> & Hok & Hrd)]; [reflexivity|].
  rewrite <- Hrd, (length_sl_read h s Hok). reflexivity.
Qed.

(* the first four statements of Eq: two fresh arrays holding copies of the arguments *)
Lemma Eq_prefix : forall h vl vw ls ws n rest o,
  int_slice h vl ls -> int_slice h vw ws ->
  runs go_funs rest
    (St [("lits", vl); ("weights", vw); ("n", VInt n);
         ("lits2", eq_l2 h (length ls)); ("weights2", eq_w2 h (length ws))] ((h ++ [ls]) ++ [ws])) o ->
  runs go_funs
    (SSeq (SMake "lits2" (ELen (EVar "lits")))
    (SSeq (SMake "weights2" (ELen (EVar "weights")))
    (SSeq (SCopy (EVar "lits2") (EVar "lits"))
    (SSeq (SCopy (EVar "weights2") (EVar "weights")) rest))))
    (St [("lits", vl); ("weights", vw); ("n", VInt n)] h) o.
Proof.
  intros h vl vw ls ws n rest o Hl Hw Hrest.
  eapply runs_seq.
  { apply runs_make with (k := Z.of_nat (length ls)); [|lia].
    apply (eval_len_int_slice h vl ls); [exact Hl|reflexivity]. }
  cbn [locals hp upd String.eqb Ascii.eqb Bool.eqb andb]. rewrite Nat2Z.id.
  eapply runs_seq.
  { apply runs_make with (k := Z.of_nat (length ws)); [|lia].
    apply (eval_len_int_slice _ vw ws); [apply int_slice_alloc; exact Hw|reflexivity]. }
  cbn [locals hp upd String.eqb Ascii.eqb Bool.eqb andb]. rewrite Nat2Z.id, length_alloc.
  eapply runs_seq with (st' := St [("lits", vl); ("weights", vw); ("n", VInt n);
         ("lits2", eq_l2 h (length ls)); ("weights2", eq_w2 h (length ws))]
         ((h ++ [ls]) ++ [repeat 0 (length ws)])).
  { apply (runs_exec go_funs 1); [|discriminate].
    unfold eq_l2, eq_w2. destruct Hl as [(-> & ->)|(sl & -> & Hokl & Hrdl)]; gocbn.
    - cbn [length firstn repeat]. rewrite heap_write_nil. reflexivity.
    - rewrite (eq_heap_copy1 h sl ls _ Hokl Hrdl). reflexivity. }
  eapply runs_seq with (st' := St [("lits", vl); ("weights", vw); ("n", VInt n);
         ("lits2", eq_l2 h (length ls)); ("weights2", eq_w2 h (length ws))] ((h ++ [ls]) ++ [ws])).
  { apply (runs_exec go_funs 1); [|discriminate].
    unfold eq_l2, eq_w2. destruct Hw as [(-> & ->)|(sw & -> & Hokw & Hrdw)]; gocbn.
    - cbn [length firstn repeat]. rewrite heap_write_nil. reflexivity.
    - rewrite (eq_heap_copy2 h sw ls ws Hokw Hrdw). reflexivity. }
  exact Hrest.
Qed.

Lemma Eq_panic_run : forall h vl vw ls ws n,
  int_slice h vl ls -> int_slice h vw ws -> disjoint_vals vl vw -> length ls <> length ws ->
  run_to go_funs "Eq" [vl; vw; VInt n] h OPanic.
Proof.
  intros h vl vw ls ws n Hl Hw Hdis Hlen.
  eapply run_to_intro; [reflexivity|reflexivity|]. rewrite src_Eq_shape. cbn [f_body].
  apply (Eq_prefix h vl vw ls ws n _ _ Hl Hw).
  set (h4 := (h ++ [ls]) ++ [ws]).
  assert (Hh4 : length h4 = S (S (length h))) by (unfold h4; rewrite !length_alloc; reflexivity).
  destruct ws as [|w ws'].
  - (* no weights, some lits: GtEq returns, LtEq panics *)
    eapply runs_seq.
    { eapply runs_call_run; [reflexivity|]. cbn [hp]. apply GtEq_empty_run. reflexivity. }
    apply runs_seq_abrupt; [|exact I].
    eapply runs_call_run_panic; [reflexivity|]. cbn [hp].
    apply (LtEq_panic_run h4 vl vw ls [] n); try assumption;
      unfold h4; apply int_slice_alloc, int_slice_alloc; assumption.
  - (* some weights: GtEq on the copies panics *)
    apply runs_seq_abrupt; [|exact I].
    eapply runs_call_run_panic; [reflexivity|]. cbn [hp].
    apply (GtEq_panic_run h4 _ _ ls (w :: ws') n); try assumption; try discriminate.
    + apply int_slice_fresh; [apply arr_of_alloc2_fst|lia].
    + apply int_slice_fresh; [apply arr_of_alloc2_snd|lia].
Qed.

Theorem Eq_panics : forall h vl vw ls ws n,
  int_slice h vl ls -> int_slice h vw ws -> disjoint_vals vl vw -> length ls <> length ws ->
  exists fuel, run go_funs fuel "Eq" [vl; vw; VInt n] h = OPanic.
Proof. intros. apply run_to_fuel. eapply Eq_panic_run; eassumption. Qed.
