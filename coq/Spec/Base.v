(* L0: assignments, literals, clauses, and exhaustive decision procedures
   proved equal to the mathematical definitions.  Stdlib only. *)
From Coq Require Import List ZArith Lia Bool NArith FinFun.
Import ListNotations.
Open Scope Z_scope.

(* A literal is a non-zero DIMACS integer; variables are 1, 2, ...          *)
(* A total model is a [list bool]: index i (from 0) is the value of variable *)
(* i+1 -- exactly gophersat's []bool.                                        *)
Definition lit := Z.
Definition clause := list lit.
Definition cnf := list clause.
Notation model := (list bool) (only parsing).

Definition var_val (m : model) (v : Z) : bool := nth (Z.to_nat (v - 1)) m false.

Definition lit_val (m : model) (l : lit) : bool :=
  if 0 <? l then var_val m l else negb (var_val m (- l)).

Definition sat_clause (m : model) (c : clause) : bool := existsb (lit_val m) c.
Definition sat_cnf (m : model) (f : cnf) : bool := forallb (sat_clause m) f.

Definition lit_var (l : lit) : Z := Z.abs l.

Fixpoint maxvar_clause (c : clause) : Z :=
  match c with [] => 0 | l :: r => Z.max (lit_var l) (maxvar_clause r) end.
Fixpoint maxvar (f : cnf) : Z :=
  match f with [] => 0 | c :: r => Z.max (maxvar_clause c) (maxvar r) end.

Definition wf_clause (c : clause) : Prop := forall l, In l c -> l <> 0.
Definition wf_cnf (f : cnf) : Prop := forall c, In c f -> wf_clause c.
Definition wf_cnfb (f : cnf) : bool := forallb (forallb (fun l => negb (l =? 0))) f.

Definition Satisfiable (n : nat) (f : cnf) : Prop :=
  exists m, length m = n /\ sat_cnf m f = true.

(* ------------------------------------------------------------------ *)
(* All total models over n variables.                                  *)

Fixpoint all_models (n : nat) : list model :=
  match n with
  | O => [[]]
  | S k => map (cons false) (all_models k) ++ map (cons true) (all_models k)
  end.

Lemma all_models_length : forall n m, In m (all_models n) -> length m = n.
Proof.
  induction n as [|n IH]; simpl; intros m H.
  - destruct H as [<-|[]]; reflexivity.
  - apply in_app_or in H. destruct H as [H|H];
      apply in_map_iff in H; destruct H as [x [<- Hx]]; simpl; f_equal; auto.
Qed.

Lemma all_models_complete : forall n m, length m = n -> In m (all_models n).
Proof.
  induction n as [|n IH]; intros m H.
  - destruct m; [left; reflexivity|discriminate].
  - destruct m as [|b m]; [discriminate|]. simpl in H. injection H as H.
    simpl. apply in_or_app. destruct b.
    + right. apply in_map. auto.
    + left. apply in_map. auto.
Qed.


Lemma NoDup_app_disj {A} (l1 l2 : list A) :
  NoDup l1 -> NoDup l2 -> (forall x, In x l1 -> In x l2 -> False) -> NoDup (l1 ++ l2).
Proof.
  induction l1 as [|a l1 IH]; simpl; intros H1 H2 D; auto.
  inversion H1; subst. constructor.
  - intro H. apply in_app_or in H. destruct H; [auto|]. eapply D; eauto.
  - apply IH; auto. intros x Hx. apply D. auto.
Qed.

Lemma all_models_NoDup : forall n, NoDup (all_models n).
Proof.
  induction n as [|n IH]; simpl.
  - constructor; [intros []|constructor].
  - assert (Hinj : forall b, NoDup (map (cons b) (all_models n))).
    { intro b. apply Injective_map_NoDup; [|exact IH].
      intros x y E. injection E. auto. }
    apply NoDup_app_disj; auto.
    intros x H1 H2. apply in_map_iff in H1. apply in_map_iff in H2.
    destruct H1 as [a [<- _]]. destruct H2 as [b [E _]]. discriminate.
Qed.

Lemma all_models_count : forall n, length (all_models n) = Nat.pow 2 n.
Proof.
  induction n as [|n IH]; [reflexivity|].
  cbn [all_models]. rewrite app_length. rewrite !map_length. rewrite IH. simpl. lia.
Qed.

(* ------------------------------------------------------------------ *)
(* Generic exhaustive procedures over a boolean predicate on models.   *)
(* They recurse on n and never materialise the 2^n list.               *)

Section Exhaustive.

Fixpoint find_model (n : nat) (p : model -> bool) : option model :=
  match n with
  | O => if p [] then Some [] else None
  | S k =>
    match find_model k (fun m => p (false :: m)) with
    | Some m => Some (false :: m)
    | None =>
      match find_model k (fun m => p (true :: m)) with
      | Some m => Some (true :: m)
      | None => None
      end
    end
  end.

Lemma find_model_some : forall n p m,
  find_model n p = Some m -> length m = n /\ p m = true.
Proof.
  induction n as [|n IH]; simpl; intros p m H.
  - destruct (p []) eqn:E; inversion H; subst; auto.
  - destruct (find_model n (fun m0 => p (false :: m0))) eqn:E1.
    + inversion H; subst. apply IH in E1. simpl. destruct E1; auto.
    + destruct (find_model n (fun m0 => p (true :: m0))) eqn:E2; [|discriminate].
      inversion H; subst. apply IH in E2. simpl. destruct E2; auto.
Qed.

Lemma find_model_none : forall n p,
  find_model n p = None -> forall m, length m = n -> p m = false.
Proof.
  induction n as [|n IH]; simpl; intros p H m L.
  - destruct m; [|discriminate]. destruct (p []); [discriminate|reflexivity].
  - destruct m as [|b m]; [discriminate|]. simpl in L. injection L as L.
    destruct (find_model n (fun m0 => p (false :: m0))) eqn:E1; [discriminate|].
    destruct (find_model n (fun m0 => p (true :: m0))) eqn:E2; [discriminate|].
    destruct b.
    + exact (IH _ E2 m L).
    + exact (IH _ E1 m L).
Qed.

Fixpoint count_models (n : nat) (p : model -> bool) : N :=
  match n with
  | O => if p [] then 1%N else 0%N
  | S k => (count_models k (fun m => p (false :: m)) + count_models k (fun m => p (true :: m)))%N
  end.

Lemma filter_map_cons : forall b (p : model -> bool) l,
  filter p (map (cons b) l) = map (cons b) (filter (fun m => p (b :: m)) l).
Proof.
  intros b p l. induction l as [|a l IH]; simpl; auto.
  destruct (p (b :: a)); simpl; rewrite IH; reflexivity.
Qed.

Lemma count_models_spec : forall n p,
  count_models n p = N.of_nat (length (filter p (all_models n))).
Proof.
  induction n as [|n IH]; intros p; simpl.
  - destruct (p []); reflexivity.
  - rewrite filter_app, app_length, !filter_map_cons, !map_length, !IH. lia.
Qed.

(* all models satisfying p, in the order of all_models *)
Fixpoint list_models (n : nat) (p : model -> bool) : list model :=
  match n with
  | O => if p [] then [[]] else []
  | S k => map (cons false) (list_models k (fun m => p (false :: m)))
        ++ map (cons true) (list_models k (fun m => p (true :: m)))
  end.

Lemma list_models_spec : forall n p, list_models n p = filter p (all_models n).
Proof.
  induction n as [|n IH]; intros p; simpl.
  - destruct (p []); reflexivity.
  - rewrite filter_app, !filter_map_cons, !IH. reflexivity.
Qed.

(* minimum of an integer cost over the models satisfying p *)
Definition omin (a b : option Z) : option Z :=
  match a, b with
  | None, x => x
  | x, None => x
  | Some x, Some y => Some (Z.min x y)
  end.

Fixpoint min_cost (n : nat) (p : model -> bool) (cost : model -> Z) : option Z :=
  match n with
  | O => if p [] then Some (cost []) else None
  | S k => omin (min_cost k (fun m => p (false :: m)) (fun m => cost (false :: m)))
                (min_cost k (fun m => p (true :: m)) (fun m => cost (true :: m)))
  end.

Lemma min_cost_none : forall n p cost,
  min_cost n p cost = None -> forall m, length m = n -> p m = false.
Proof.
  induction n as [|n IH]; simpl; intros p cost H m L.
  - destruct m; [|discriminate]. destruct (p []); [discriminate|reflexivity].
  - destruct m as [|b m]; [discriminate|]. simpl in L; injection L as L.
    destruct (min_cost n (fun m0 => p (false :: m0)) (fun m0 => cost (false :: m0))) eqn:E1;
    destruct (min_cost n (fun m0 => p (true :: m0)) (fun m0 => cost (true :: m0))) eqn:E2;
      simpl in H; try discriminate.
    destruct b; [exact (IH _ _ E2 m L)|exact (IH _ _ E1 m L)].
Qed.

Lemma min_cost_some : forall n p cost c,
  min_cost n p cost = Some c ->
  (exists m, length m = n /\ p m = true /\ cost m = c) /\
  (forall m, length m = n -> p m = true -> c <= cost m).
Proof.
  induction n as [|n IH]; simpl; intros p cost c H.
  - destruct (p []) eqn:E; inversion H; subst. split.
    + exists []. auto.
    + intros m L _. destruct m; [lia|discriminate].
  - destruct (min_cost n (fun m0 => p (false :: m0)) (fun m0 => cost (false :: m0))) eqn:E1;
    destruct (min_cost n (fun m0 => p (true :: m0)) (fun m0 => cost (true :: m0))) eqn:E2;
      simpl in H; inversion H; subst; clear H.
    + apply IH in E1. apply IH in E2.
      destruct E1 as [[m1 [L1 [P1 C1]]] M1]. destruct E2 as [[m2 [L2 [P2 C2]]] M2].
      split.
      * destruct (Z.min_spec z z0) as [[_ ->]|[_ ->]].
        -- exists (false :: m1). simpl. auto.
        -- exists (true :: m2). simpl. auto.
      * intros m L P. destruct m as [|b m]; [discriminate|]. simpl in L; injection L as L.
        destruct b; [specialize (M2 m L P)|specialize (M1 m L P)]; lia.
    + apply IH in E1. destruct E1 as [[m1 [L1 [P1 C1]]] M1].
      pose proof (min_cost_none _ _ _ E2) as N2. split.
      * exists (false :: m1). simpl. auto.
      * intros m L P. destruct m as [|b m]; [discriminate|]. simpl in L; injection L as L.
        destruct b; [rewrite (N2 m L) in P; discriminate|exact (M1 m L P)].
    + apply IH in E2. destruct E2 as [[m2 [L2 [P2 C2]]] M2].
      pose proof (min_cost_none _ _ _ E1) as N1. split.
      * exists (true :: m2). simpl. auto.
      * intros m L P. destruct m as [|b m]; [discriminate|]. simpl in L; injection L as L.
        destruct b; [exact (M2 m L P)|rewrite (N1 m L) in P; discriminate].
Qed.

(* Pruned search.  [prune pre] receives the reversed prefix (the value of   *)
(* variable k first, of variable 1 last).  It must only cut subtrees that   *)
(* contain no model.                                                         *)

Fixpoint find_pruned (n : nat) (prune : list bool -> bool) (p : model -> bool)
         (pre : list bool) : option model :=
  if prune pre then None else
  match n with
  | O => if p (rev pre) then Some (rev pre) else None
  | S k =>
    match find_pruned k prune p (false :: pre) with
    | Some m => Some m
    | None => find_pruned k prune p (true :: pre)
    end
  end.

Lemma find_pruned_some : forall n prune p pre m,
  find_pruned n prune p pre = Some m ->
  p m = true /\ length m = (length pre + n)%nat /\ exists suf, m = rev pre ++ suf.
Proof.
  induction n as [|n IH]; simpl; intros prune p pre m H.
  - destruct (prune pre); [discriminate|].
    destruct (p (rev pre)) eqn:E; inversion H; subst.
    split; [auto|split]. rewrite rev_length; lia. exists []. rewrite app_nil_r; auto.
  - destruct (prune pre); [discriminate|].
    destruct (find_pruned n prune p (false :: pre)) eqn:E1.
    + inversion H; subst. apply IH in E1. destruct E1 as [P [L [suf S]]].
      split; [auto|split]. simpl in L; lia. exists (false :: suf). rewrite S. simpl.
      rewrite <- app_assoc. reflexivity.
    + apply IH in H. destruct H as [P [L [suf S]]].
      split; [auto|split]. simpl in L; lia. exists (true :: suf). rewrite S. simpl.
      rewrite <- app_assoc. reflexivity.
Qed.

Lemma find_pruned_none : forall n prune p,
  (forall pre, prune pre = true -> forall suf, p (rev pre ++ suf) = false) ->
  forall pre, find_pruned n prune p pre = None ->
  forall suf, length suf = n -> p (rev pre ++ suf) = false.
Proof.
  induction n as [|n IH]; simpl; intros prune p PS pre H suf L.
  - destruct suf; [|discriminate]. rewrite app_nil_r.
    destruct (prune pre) eqn:EP.
    + specialize (PS pre EP []). rewrite app_nil_r in PS. exact PS.
    + destruct (p (rev pre)); [discriminate|reflexivity].
  - destruct (prune pre) eqn:EP; [apply PS; exact EP|].
    destruct suf as [|b suf]; [discriminate|]. simpl in L; injection L as L.
    destruct (find_pruned n prune p (false :: pre)) eqn:E1; [discriminate|].
    replace (rev pre ++ b :: suf) with (rev (b :: pre) ++ suf)
      by (simpl; rewrite <- app_assoc; reflexivity).
    destruct b; [exact (IH prune p PS _ H suf L)|exact (IH prune p PS _ E1 suf L)].
Qed.

End Exhaustive.

(* ------------------------------------------------------------------ *)
(* Decision procedures for CNF.                                        *)

Definition sat_dec (n : nat) (f : cnf) : option model := find_model n (fun m => sat_cnf m f).
Definition count_dec (n : nat) (f : cnf) : N := count_models n (fun m => sat_cnf m f).

Lemma sat_dec_some : forall n f m, sat_dec n f = Some m -> length m = n /\ sat_cnf m f = true.
Proof. intros. apply find_model_some in H. exact H. Qed.

Lemma sat_dec_none : forall n f, sat_dec n f = None -> ~ Satisfiable n f.
Proof.
  intros n f H [m [L S]]. pose proof (find_model_none _ _ H m L) as E. simpl in E.
  rewrite S in E. discriminate.
Qed.

Lemma sat_dec_iff : forall n f, (exists m, sat_dec n f = Some m) <-> Satisfiable n f.
Proof.
  intros n f. split.
  - intros [m H]. exists m. apply sat_dec_some. exact H.
  - intros S. destruct (sat_dec n f) eqn:E; [eauto|]. exfalso. exact (sat_dec_none _ _ E S).
Qed.
