(* L0: pruned exhaustive procedures over user-level constraints (either sign,
   >=, <=, =): decision, counting and minimisation, each proved equal to the
   unpruned oracle of Spec/Base.v.  These are the judges' oracles for larger n. *)
From Coq Require Import List ZArith Lia Bool NArith.
From GS Require Import Spec.Base Spec.PB Spec.Solver.
Import ListNotations.
Open Scope Z_scope.

(* bounds of the left-hand side under a prefix assignment *)
Fixpoint lo_hi (pre : list bool) (ts : list term) : Z * Z :=
  match ts with
  | [] => (0, 0)
  | t :: r =>
    let '(lo, hi) := lo_hi pre r in
    let w := fst t in
    match pre_lit pre (snd t) with
    | Some true => (lo + w, hi + w)
    | Some false => (lo, hi)
    | None => (lo + Z.min 0 w, hi + Z.max 0 w)
    end
  end.

Lemma lo_hi_sound : forall pre suf ts,
  fst (lo_hi pre ts) <= lhs (rev pre ++ suf) ts <= snd (lo_hi pre ts).
Proof.
  induction ts as [|t ts IH]; cbn [lo_hi lhs]; [simpl; lia|].
  destruct (lo_hi pre ts) as [lo hi]. cbn [fst snd] in IH. unfold term_val.
  destruct (pre_lit pre (snd t)) as [[|]|] eqn:E; cbn [fst snd].
  - rewrite (pre_lit_sound _ suf _ _ E). lia.
  - rewrite (pre_lit_sound _ suf _ _ E). lia.
  - destruct (lit_val _ _); lia.
Qed.

Definition uc_falsified (pre : list bool) (c : uc) : bool :=
  let '(lo, hi) := lo_hi pre (u_terms c) in
  match u_rel c with
  | Ge => hi <? u_rhs c
  | Le => u_rhs c <? lo
  | Eq => (hi <? u_rhs c) || (u_rhs c <? lo)
  end.

Definition uprune (P : uproblem) (pre : list bool) : bool := existsb (uc_falsified pre) P.

Lemma uprune_sound : forall P pre, uprune P pre = true ->
  forall suf, sat_uproblem (rev pre ++ suf) P = false.
Proof.
  intros P pre H suf. unfold uprune in H. apply existsb_exists in H.
  destruct H as [c [Hin Hf]].
  destruct (sat_uproblem (rev pre ++ suf) P) eqn:E; [|reflexivity].
  unfold sat_uproblem in E. rewrite forallb_forall in E. specialize (E c Hin).
  unfold uc_falsified in Hf. pose proof (lo_hi_sound pre suf (u_terms c)) as B.
  destruct (lo_hi pre (u_terms c)) as [lo hi]. cbn [fst snd] in B.
  unfold sat_uc in E. destruct (u_rel c).
  - apply Z.ltb_lt in Hf. apply Z.leb_le in E. lia.
  - apply Z.ltb_lt in Hf. apply Z.leb_le in E. lia.
  - apply Z.eqb_eq in E. apply orb_true_iff in Hf. destruct Hf as [Hf|Hf]; apply Z.ltb_lt in Hf; lia.
Qed.

Definition uref_solve (n : nat) (P : uproblem) : option model :=
  find_pruned n (uprune P) (fun m => sat_uproblem m P) [].

Theorem uref_solve_some : forall n P m,
  uref_solve n P = Some m -> length m = n /\ sat_uproblem m P = true.
Proof. intros n P m H. apply find_pruned_some in H. destruct H as [Hp [Hl _]]. auto. Qed.

Theorem uref_solve_none : forall n P,
  uref_solve n P = None -> forall m, length m = n -> sat_uproblem m P = false.
Proof.
  intros n P H m L.
  exact (find_pruned_none n (uprune P) (fun m => sat_uproblem m P) (uprune_sound P) [] H m L).
Qed.

(* ---- pruned counting and minimisation, generic ---- *)

Section Pruned.
Variable prune : list bool -> bool.
Variable p : model -> bool.
Hypothesis prune_ok : forall pre, prune pre = true -> forall suf, p (rev pre ++ suf) = false.

Fixpoint count_pruned (n : nat) (pre : list bool) : N :=
  if prune pre then 0%N else
  match n with
  | O => if p (rev pre) then 1%N else 0%N
  | S k => (count_pruned k (false :: pre) + count_pruned k (true :: pre))%N
  end.

Lemma rev_cons_app : forall (b : bool) pre suf, rev (b :: pre) ++ suf = rev pre ++ b :: suf.
Proof. intros. simpl. rewrite <- app_assoc. reflexivity. Qed.

Lemma count_models_zero : forall n q, (forall m, length m = n -> q m = false) -> count_models n q = 0%N.
Proof.
  induction n as [|n IH]; intros q H; simpl.
  - rewrite (H [] eq_refl). reflexivity.
  - rewrite (IH (fun m => q (false :: m))), (IH (fun m => q (true :: m))); [reflexivity| |];
      intros m L; apply H; simpl; congruence.
Qed.

Lemma count_models_ext : forall n q1 q2, (forall m, q1 m = q2 m) -> count_models n q1 = count_models n q2.
Proof.
  induction n as [|n IH]; intros q1 q2 H; simpl.
  - rewrite H. reflexivity.
  - rewrite (IH (fun m => q1 (false :: m)) (fun m => q2 (false :: m))),
            (IH (fun m => q1 (true :: m)) (fun m => q2 (true :: m))); auto.
Qed.

Lemma count_pruned_spec : forall n pre,
  count_pruned n pre = count_models n (fun suf => p (rev pre ++ suf)).
Proof.
  induction n as [|n IH]; intros pre; cbn [count_pruned count_models].
  - destruct (prune pre) eqn:E.
    + rewrite (prune_ok pre E []). reflexivity.
    + rewrite app_nil_r. reflexivity.
  - destruct (prune pre) eqn:E.
    + symmetry. 
      rewrite (count_models_zero n (fun m => p (rev pre ++ false :: m))),
              (count_models_zero n (fun m => p (rev pre ++ true :: m))); [reflexivity| |];
        intros m _; apply prune_ok; exact E.
    + rewrite !IH. f_equal; apply count_models_ext; intros m; rewrite rev_cons_app; reflexivity.
Qed.

Variable costf : model -> Z.

Fixpoint min_pruned (n : nat) (pre : list bool) : option Z :=
  if prune pre then None else
  match n with
  | O => if p (rev pre) then Some (costf (rev pre)) else None
  | S k => omin (min_pruned k (false :: pre)) (min_pruned k (true :: pre))
  end.

Lemma min_cost_none_iff : forall n q c, (forall m, length m = n -> q m = false) -> min_cost n q c = None.
Proof.
  induction n as [|n IH]; intros q c H; simpl.
  - rewrite (H [] eq_refl). reflexivity.
  - rewrite (IH (fun m => q (false :: m))), (IH (fun m => q (true :: m))); [reflexivity| |];
      intros m L; apply H; simpl; congruence.
Qed.

Lemma min_cost_ext : forall n q1 q2 c1 c2, (forall m, q1 m = q2 m) -> (forall m, c1 m = c2 m) ->
  min_cost n q1 c1 = min_cost n q2 c2.
Proof.
  induction n as [|n IH]; intros q1 q2 c1 c2 H Hc; simpl.
  - rewrite H, Hc. reflexivity.
  - rewrite (IH (fun m => q1 (false :: m)) (fun m => q2 (false :: m)) (fun m => c1 (false :: m)) (fun m => c2 (false :: m))),
            (IH (fun m => q1 (true :: m)) (fun m => q2 (true :: m)) (fun m => c1 (true :: m)) (fun m => c2 (true :: m))); auto.
Qed.

Lemma min_pruned_spec : forall n pre,
  min_pruned n pre = min_cost n (fun suf => p (rev pre ++ suf)) (fun suf => costf (rev pre ++ suf)).
Proof.
  induction n as [|n IH]; intros pre; cbn [min_pruned min_cost].
  - destruct (prune pre) eqn:E.
    + rewrite (prune_ok pre E []). reflexivity.
    + rewrite app_nil_r. reflexivity.
  - destruct (prune pre) eqn:E.
    + symmetry.
      rewrite (min_cost_none_iff n (fun m => p (rev pre ++ false :: m))),
              (min_cost_none_iff n (fun m => p (rev pre ++ true :: m))); [reflexivity| |];
        intros m _; apply prune_ok; exact E.
    + rewrite !IH. f_equal; apply min_cost_ext; intros m; rewrite rev_cons_app; reflexivity.
Qed.

End Pruned.

Definition ucount (n : nat) (P : uproblem) : N :=
  count_pruned (uprune P) (fun m => sat_uproblem m P) n [].

Theorem ucount_spec : forall n P, ucount n P = ucount_dec n P.
Proof.
  intros n P. unfold ucount, ucount_dec.
  rewrite (count_pruned_spec _ _ (uprune_sound P)). reflexivity.
Qed.

Definition umin (n : nat) (P : uproblem) (c : cost) : option Z :=
  min_pruned (uprune P) (fun m => sat_uproblem m P) (fun m => cost_of m c) n [].

Theorem umin_spec : forall n P c, umin n P c = umin_dec n P c.
Proof.
  intros n P c. unfold umin, umin_dec.
  rewrite (min_pruned_spec _ _ (uprune_sound P)). reflexivity.
Qed.
