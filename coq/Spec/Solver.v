(* L0: the contract that the upper layers (Optimal, Enumerate, MaxSAT, MUS,
   incremental use, bf.Solve) assume of a decision procedure, the cost of a
   model, optimum, and the discharge of the contract by the verified
   reference search of Spec/PB.v. *)
From Coq Require Import List ZArith Lia Bool NArith.
From GS Require Import Spec.Base Spec.PB.
Import ListNotations.
Open Scope Z_scope.

(* A solver takes the number of variables and a problem (normalised
   constraints) and returns a total model or None. *)
Definition solver := nat -> problem -> option model.

Definition solver_ok (solve : solver) : Prop :=
  forall n P,
    match solve n P with
    | Some m => length m = n /\ sat_problem m P = true
    | None => forall m, length m = n -> sat_problem m P = false
    end.

Lemma ref_solver_ok : solver_ok ref_solve.
Proof.
  intros n P. destruct (ref_solve n P) eqn:E.
  - apply ref_solve_some. exact E.
  - apply ref_solve_none. exact E.
Qed.

Definition PSatisfiable (n : nat) (P : problem) : Prop :=
  exists m, length m = n /\ sat_problem m P = true.

Lemma solver_ok_some : forall solve, solver_ok solve -> forall n P m,
  solve n P = Some m -> length m = n /\ sat_problem m P = true.
Proof. intros solve H n P m E. specialize (H n P). rewrite E in H. exact H. Qed.

Lemma solver_ok_none : forall solve, solver_ok solve -> forall n P,
  solve n P = None -> ~ PSatisfiable n P.
Proof.
  intros solve H n P E [m [L S]]. specialize (H n P). rewrite E in H.
  rewrite (H m L) in S. discriminate.
Qed.

(* A linear cost function: sum of the weights of the terms whose literal is true. *)
Definition cost := list term.
Definition cost_of (m : model) (c : cost) : Z := lhs m c.

Definition is_optimum (n : nat) (P : problem) (c : cost) (m : model) : Prop :=
  length m = n /\ sat_problem m P = true /\
  forall m', length m' = n -> sat_problem m' P = true -> cost_of m c <= cost_of m' c.

Definition min_dec (n : nat) (P : problem) (c : cost) : option Z :=
  min_cost n (fun m => sat_problem m P) (fun m => cost_of m c).

Lemma min_dec_some : forall n P c w, min_dec n P c = Some w ->
  (exists m, is_optimum n P c m /\ cost_of m c = w).
Proof.
  intros n P c w H. apply min_cost_some in H. destruct H as [[m [L [S C]]] M].
  exists m. split; [|exact C]. split; [exact L|split; [exact S|]].
  intros m' L' S'. rewrite C. apply M; assumption.
Qed.

Lemma min_dec_none : forall n P c, min_dec n P c = None -> ~ PSatisfiable n P.
Proof.
  intros n P c H [m [L S]]. pose proof (min_cost_none _ _ _ H m L) as E.
  simpl in E. rewrite S in E. discriminate.
Qed.

(* user-level versions *)
Definition umin_dec (n : nat) (P : uproblem) (c : cost) : option Z :=
  min_cost n (fun m => sat_uproblem m P) (fun m => cost_of m c).
