(* L0: cardinality / pseudo-boolean constraints, user-level and normalised,
   problems, and the verified reference search with slack pruning. *)
From Coq Require Import List ZArith Lia Bool NArith.
From GS Require Import Spec.Base.
Import ListNotations.
Open Scope Z_scope.

(* A term is (weight, literal).  *)
Definition term := (Z * lit)%type.

Definition term_val (m : model) (t : term) : Z := if lit_val m (snd t) then fst t else 0.

Fixpoint lhs (m : model) (ts : list term) : Z :=
  match ts with [] => 0 | t :: r => term_val m t + lhs m r end.

(* Normalised form used by the solver: sum of terms >= degree. *)
Record pbc := PBC { terms : list term; degree : Z }.

Definition sat_pbc (m : model) (c : pbc) : bool := degree c <=? lhs m (terms c).

Definition problem := list pbc.
Definition sat_problem (m : model) (P : problem) : bool := forallb (sat_pbc m) P.

(* User-level constraint: sum rel rhs with rel among >=, <=, =  *)
Inductive rel := Ge | Le | Eq.
Record uc := UC { u_terms : list term; u_rel : rel; u_rhs : Z }.

Definition sat_uc (m : model) (c : uc) : bool :=
  let s := lhs m (u_terms c) in
  match u_rel c with
  | Ge => u_rhs c <=? s
  | Le => s <=? u_rhs c
  | Eq => s =? u_rhs c
  end.

Definition uproblem := list uc.
Definition sat_uproblem (m : model) (P : uproblem) : bool := forallb (sat_uc m) P.

Definition unit_terms (c : clause) : list term := map (fun l => (1, l)) c.
Definition clause_pbc (c : clause) : pbc := PBC (unit_terms c) 1.
Definition card_pbc (c : clause) (k : Z) : pbc := PBC (unit_terms c) k.
Definition clause_uc (c : clause) : uc := UC (unit_terms c) Ge 1.
Definition pbc_uc (c : pbc) : uc := UC (terms c) Ge (degree c).

Definition count_true (m : model) (c : clause) : Z := lhs m (unit_terms c).

Lemma lhs_unit_nonneg : forall m c, 0 <= lhs m (unit_terms c).
Proof.
  unfold unit_terms. induction c as [|l c IH]; simpl; [lia|]. unfold term_val; simpl.
  destruct (lit_val m l); lia.
Qed.

Lemma sat_clause_lhs : forall m c, sat_clause m c = (1 <=? lhs m (unit_terms c)).
Proof.
  intros m c. pose proof (lhs_unit_nonneg m) as Hnn. unfold unit_terms in *.
  induction c as [|l c IH]; simpl; [reflexivity|].
  unfold sat_clause in *. simpl. unfold term_val; simpl.
  pose proof (Hnn c) as Hn.
  destruct (lit_val m l); cbn [orb].
  - symmetry. apply Z.leb_le. lia.
  - rewrite IH. rewrite Z.add_0_l. reflexivity.
Qed.

Lemma sat_clause_pbc : forall m c, sat_pbc m (clause_pbc c) = sat_clause m c.
Proof. intros. unfold sat_pbc; simpl. symmetry. apply sat_clause_lhs. Qed.

Lemma sat_clause_uc : forall m c, sat_uc m (clause_uc c) = sat_clause m c.
Proof. intros. unfold sat_uc; simpl. symmetry. apply sat_clause_lhs. Qed.

Lemma sat_pbc_uc : forall m c, sat_uc m (pbc_uc c) = sat_pbc m c.
Proof. reflexivity. Qed.

Definition cnf_problem (f : cnf) : problem := map clause_pbc f.
Definition cnf_uproblem (f : cnf) : uproblem := map clause_uc f.

Lemma sat_cnf_problem : forall m f, sat_problem m (cnf_problem f) = sat_cnf m f.
Proof.
  unfold sat_problem, cnf_problem, sat_cnf.
  induction f as [|c f IH]; [reflexivity|].
  cbn [map forallb]. rewrite sat_clause_pbc, IH. reflexivity.
Qed.

Lemma sat_cnf_uproblem : forall m f, sat_uproblem m (cnf_uproblem f) = sat_cnf m f.
Proof.
  unfold sat_uproblem, cnf_uproblem, sat_cnf.
  induction f as [|c f IH]; [reflexivity|].
  cbn [map forallb]. rewrite sat_clause_uc, IH. reflexivity.
Qed.

(* ------------------------------------------------------------------ *)
(* Partial assignment given by a reversed prefix.                      *)

Definition pre_lit (pre : list bool) (l : lit) : option bool :=
  let v := Z.abs l in
  let k := Z.of_nat (length pre) in
  if (1 <=? v) && (v <=? k)
  then let b := nth (Z.to_nat (k - v)) pre false in
       Some (if 0 <? l then b else negb b)
  else None.

Lemma var_val_prefix : forall pre suf v,
  1 <= v <= Z.of_nat (length pre) ->
  var_val (rev pre ++ suf) v = nth (Z.to_nat (Z.of_nat (length pre) - v)) pre false.
Proof.
  intros pre suf v Hv. unfold var_val.
  rewrite app_nth1 by (rewrite rev_length; lia).
  rewrite rev_nth by lia. f_equal. lia.
Qed.

Lemma pre_lit_sound : forall pre suf l b,
  pre_lit pre l = Some b -> lit_val (rev pre ++ suf) l = b.
Proof.
  intros pre suf l b. unfold pre_lit, lit_val.
  destruct ((1 <=? Z.abs l) && (Z.abs l <=? Z.of_nat (length pre))) eqn:E; [|discriminate].
  apply andb_true_iff in E. destruct E as [E1 E2].
  apply Z.leb_le in E1. apply Z.leb_le in E2.
  intros H. injection H as <-.
  destruct (0 <? l) eqn:P.
  - apply Z.ltb_lt in P. rewrite Z.abs_eq in * by lia. apply var_val_prefix. lia.
  - apply Z.ltb_ge in P. rewrite Z.abs_neq in * by lia. f_equal. apply var_val_prefix. lia.
Qed.

(* The most the left-hand side can still reach under the prefix. *)
Fixpoint possible (pre : list bool) (ts : list term) : Z :=
  match ts with
  | [] => 0
  | t :: r => (match pre_lit pre (snd t) with Some false => 0 | _ => fst t end) + possible pre r
  end.

Definition nonneg_terms (ts : list term) : bool := forallb (fun t => 0 <=? fst t) ts.

Lemma possible_bound : forall pre suf ts,
  nonneg_terms ts = true -> lhs (rev pre ++ suf) ts <= possible pre ts.
Proof.
  induction ts as [|t ts IH]; simpl; intros H; [lia|].
  apply andb_true_iff in H. destruct H as [Hw Hr]. apply Z.leb_le in Hw.
  specialize (IH Hr). unfold term_val.
  destruct (pre_lit pre (snd t)) as [[|]|] eqn:E.
  - destruct (lit_val _ _); lia.
  - rewrite (pre_lit_sound _ suf _ _ E). lia.
  - destruct (lit_val _ _); lia.
Qed.

Definition falsified_pre (pre : list bool) (c : pbc) : bool :=
  nonneg_terms (terms c) && (possible pre (terms c) <? degree c).

Definition prune (P : problem) (pre : list bool) : bool := existsb (falsified_pre pre) P.

Lemma prune_sound : forall P pre, prune P pre = true ->
  forall suf, sat_problem (rev pre ++ suf) P = false.
Proof.
  intros P pre H suf. unfold prune in H. apply existsb_exists in H.
  destruct H as [c [Hin Hf]]. unfold falsified_pre in Hf.
  apply andb_true_iff in Hf. destruct Hf as [Hn Hlt]. apply Z.ltb_lt in Hlt.
  pose proof (possible_bound pre suf _ Hn) as Hb.
  destruct (sat_problem (rev pre ++ suf) P) eqn:E; [|reflexivity].
  unfold sat_problem in E. rewrite forallb_forall in E. specialize (E c Hin).
  unfold sat_pbc in E. apply Z.leb_le in E. lia.
Qed.

(* ------------------------------------------------------------------ *)
(* The reference solver: exhaustive search with slack pruning.         *)

Definition ref_solve (n : nat) (P : problem) : option model :=
  find_pruned n (prune P) (fun m => sat_problem m P) [].

Theorem ref_solve_some : forall n P m,
  ref_solve n P = Some m -> length m = n /\ sat_problem m P = true.
Proof.
  intros n P m H. apply find_pruned_some in H. destruct H as [Hp [Hl _]]. auto.
Qed.

Theorem ref_solve_none : forall n P,
  ref_solve n P = None -> forall m, length m = n -> sat_problem m P = false.
Proof.
  intros n P H m L.
  exact (find_pruned_none n (prune P) (fun m => sat_problem m P) (prune_sound P) [] H m L).
Qed.

Definition usat_dec (n : nat) (P : uproblem) : option model :=
  find_model n (fun m => sat_uproblem m P).
Definition ucount_dec (n : nat) (P : uproblem) : N :=
  count_models n (fun m => sat_uproblem m P).
